#include "hist.hpp"

#include <sstream>

namespace sim {
namespace hist {

// ======================================================================= construction

HistSim::HistSim(const Options& o, Transcript* t, bool real)
    : opt(o), tmpAlloc_(o.instBase + 99, nullptr), t_(t), real_(real) {
  docs_.resize(size_t(o.ndocs));
  poolsBefore_.assign(size_t(o.ndocs), SIZE_MAX);
  for (int d = 0; d < o.ndocs; d++) {
    allocs_.emplace_back(new SimAllocator(o.instBase + d, t));
    allocs_.back()->moveOnRealloc = o.moveRealloc;
    if (o.bernDen) {
      allocs_.back()->faults.bernoulliNum = 1;
      allocs_.back()->faults.bernoulliDen = o.bernDen;
      allocs_.back()->faults.rng = Rng(mix64(o.bernSeed + uint64_t(d)));
    }
  }
  for (int d = 0; d < o.ndocs; d++) {
    auto& ds = docs_[size_t(d)];
    ds.alloc = o.shareAlloc ? 0 : d;
    ds.model = Val::null();
    ds.model.id = newId();
    if (o.useDefaultAlloc)
      ds.alloc = -1;
    if (real_)
      ds.doc = o.useDefaultAlloc ? new JsonDocument() : new JsonDocument(allocs_[size_t(ds.alloc)].get());
    Ref r;
    r.doc = d;
    r.node = ds.model.id;
    r.root = true;
    refs_.push_back(r);
  }
}

HistSim::~HistSim() {
  // only reached with live documents after a violation: release quietly
  for (auto& ds : docs_) {
    if (ds.doc) {
      try {
        delete ds.doc;
      } catch (...) {
      }
      ds.doc = nullptr;
    }
  }
  for (auto& a : allocs_)
    a->forgetAll();
  tmpAlloc_.forgetAll();
}

// ======================================================================= model helpers

Val* HistSim::findIn(Val& v, uint32_t id) {
  if (v.id == id)
    return &v;
  for (auto& e : v.a)
    if (Val* r = findIn(e, id))
      return r;
  for (auto& e : v.o)
    if (Val* r = findIn(e.second, id))
      return r;
  return nullptr;
}

Val* HistSim::findNode(int doc, uint32_t id) {
  return findIn(docs_[size_t(doc)].model, id);
}

bool HistSim::pathIn(Val& v, uint32_t id, std::vector<Sel>& out) {
  if (v.id == id)
    return true;
  for (size_t j = 0; j < v.a.size(); j++) {
    out.push_back(Sel::i(j));
    if (pathIn(v.a[j], id, out))
      return true;
    out.pop_back();
  }
  for (size_t j = 0; j < v.o.size(); j++) {
    out.push_back(Sel::k(v.o[j].first));
    // duplicate keys (MessagePack input): the path designates the first; good enough for regions
    if (pathIn(v.o[j].second, id, out))
      return true;
    out.pop_back();
  }
  return false;
}

std::vector<Sel> HistSim::pathOf(int doc, uint32_t node) {
  std::vector<Sel> p;
  pathIn(docs_[size_t(doc)].model, node, p);
  return p;
}

bool HistSim::isAncestorOrSelf(int doc, uint32_t anc, uint32_t node) {
  Val* a = findNode(doc, anc);
  return a && findIn(*a, node) != nullptr;
}

void HistSim::freshIds(Val& v, bool keepRoot) {
  if (!keepRoot)
    v.id = newId();
  for (auto& e : v.a)
    freshIds(e, false);
  for (auto& e : v.o)
    freshIds(e.second, false);
}

void HistSim::assignContent(Val& dst, const Val& src) {
  uint32_t keep = dst.id;
  Val c = src;
  dst = c;
  dst.id = keep;
  freshIds(dst, true);
}

Val* HistSim::mGetOrCreate(Val& node, const Sel& s) {
  if (s.isKey) {
    if (node.k == K::Null)
      node.clearTo(K::Obj);
    if (node.k != K::Obj)
      return nullptr;
    if (Val* m = node.member(s.key))
      return m;
    Val nv;
    nv.id = newId();
    node.o.emplace_back(s.key, nv);
    return &node.o.back().second;
  }
  if (node.k == K::Null)
    node.clearTo(K::Arr);
  if (node.k != K::Arr)
    return nullptr;
  while (node.a.size() <= s.idx) {
    Val nv;
    nv.id = newId();
    node.a.push_back(nv);
  }
  return &node.a[s.idx];
}

std::vector<const Ref*> HistSim::aliveRefs() const {
  std::vector<const Ref*> v;
  for (auto& r : refs_)
    if (r.alive)
      v.push_back(&r);
  return v;
}

Ref* HistSim::resolve(const Op& op, const char* key) {
  std::vector<Ref*> v;
  for (auto& r : refs_)
    if (r.alive)
      v.push_back(&r);
  return v[size_t(op.unum(key) % v.size())];
}

void HistSim::dropDocRefs(int d) {
  for (auto& r : refs_)
    if (!r.root && r.doc == d)
      r.alive = false;
}

// drops references whose node disappeared
void HistSim::pruneRefs() {
  for (auto& r : refs_) {
    if (!r.alive || r.root)
      continue;
    Val* n = findNode(r.doc, r.node);
    if (!n) {
      r.alive = false;
      continue;
    }
    if ((r.view == 'a' && n->k != K::Arr) || (r.view == 'o' && n->k != K::Obj))
      r.alive = false;
  }
  // keep the table small
  size_t alive = 0;
  for (auto& r : refs_)
    if (r.alive && !r.root)
      alive++;
  for (auto& r : refs_) {
    if (alive <= 24)
      break;
    if (r.alive && !r.root) {
      r.alive = false;
      alive--;
    }
  }
}

size_t HistSim::addRef(int doc, uint32_t node, char view) {
  Ref r;
  r.doc = doc;
  r.node = node;
  r.view = view;
  refs_.push_back(r);
  return refs_.size() - 1;
}

JsonVariant HistSim::realVariant(Ref& r) {
  if (r.root)
    return docs_[size_t(r.doc)].doc->as<JsonVariant>();
  switch (r.view) {
    case 'v':
      return r.v;
    case 'a':
      return r.a;
    case 'o':
      return r.o;
    default:
      throw HarnessError("realVariant on a const reference");
  }
}

JsonVariantConst HistSim::realConst(Ref& r) {
  if (r.root)
    return docs_[size_t(r.doc)].doc->as<JsonVariantConst>();
  switch (r.view) {
    case 'v':
      return r.v;
    case 'a':
      return r.a;
    case 'o':
      return r.o;
    default:
      return r.c;
  }
}

// Which kind of string argument carries this string: decided by the replica (twin mode)
// or by a hash of (plan seed, op index, argument index) — never by the PRNG stream.
Src HistSim::pickSrc(size_t opIndex, size_t arg, const std::string& bytes, bool linkedHint) {
  uint64_t h = mix64(opt.srcSeed ^ mix64(opIndex * 131 + arg));
  static const Src copied[] = {Src::CPtr, Src::UCPtr, Src::CArr, Src::Std, Src::Sv, Src::JsC, Src::AStr, Src::Flash};
  Src want;
  if (opt.replica == 'L')
    want = (h & 1) ? Src::Lit : Src::JsL;
  else if (opt.replica == 'C')
    want = copied[(h >> 8) % 8];
  else if (linkedHint)  // replica 0 and the mixed replica 'M': as the plan says
    want = (h & 1) ? Src::Lit : Src::JsL;
  else
    want = copied[(h >> 8) % 8];
  return srcFit(want, bytes);
}

// ======================================================================= real-side value setting

namespace {

}  // namespace

// dst.set(scalar) through a type chosen from the value and a hash; returns set()'s result
bool HistSim::realSetValue(JsonVariant dst, const Val& v, size_t ix, size_t arg) {
  uint64_t h = mix64(opt.srcSeed ^ mix64(ix * 977 + arg * 13 + 7));
  switch (v.k) {
    case K::Null:
      // null has many spellings: nullptr, a null string of either kind, an unbound handle of every type
      switch ((h >> 8) % 12) {
        case 0:
          return dst.set(static_cast<const char*>(nullptr));
        case 1:
          return dst.set(JsonString());
        case 2:
          return dst.set(JsonVariant());
        case 3:
          return dst.set(JsonVariantConst());
        case 4:
          return dst.set(JsonArray());
        case 5:
          return dst.set(JsonArrayConst());
        case 6:
          return dst.set(JsonObject());
        case 7:
          return dst.set(JsonObjectConst());
        default:
          return dst.set(nullptr);
      }
    case K::Bool:
      return dst.set(v.b);
    case K::Int:
      if (v.i >= INT32_MIN && (h & 1))
        return dst.set(int32_t(v.i));
      if (v.i >= -128 && (h & 2))
        return dst.set((signed char)v.i);
      if (h & 4)
        return dst.set((long long)v.i);
      return dst.set(int64_t(v.i));
    case K::UInt:
      if (v.u <= 0x7FFFFFFF && (h & 1))
        return dst.set(int(v.u));
      if (v.u <= 0xFFFFFFFFu && (h & 2))
        return dst.set(uint32_t(v.u));
      if (v.u <= 0xFFFF && (h & 4))
        return dst.set((unsigned short)v.u);
      if (v.u <= 0x7FFFFFFFFFFFFFFFull && (h & 8))
        return dst.set(int64_t(v.u));
      return dst.set(uint64_t(v.u));
    case K::Float:
      if (h & 1)
        return dst.set(double(v.f));
      return dst.set(v.f);
    case K::Double:
      return dst.set(v.d);
    case K::Str: {
      Src s = pickSrc(ix, arg, v.s, v.linked);
      return withStr(s, v.s, arena_, [&](auto&& x) { return dst.set(x); });
    }
    case K::Raw: {
      std::string payload;
      int8_t type = 0;
      if (asBin(v.s, payload))
        return dst.set(MsgPackBinary(payload.data(), payload.size()));
      if (asExt(v.s, type, payload))
        return dst.set(MsgPackExtension(type, payload.data(), payload.size()));
      if ((h & 1) && v.s.find('\0') == std::string::npos) {
        std::string* tmp = new std::string(v.s);
        bool r = dst.set(serialized(*tmp));
        for (auto& c : *tmp)
          c = char(0xEE);
        delete tmp;
        return r;
      }
      char* tmp = static_cast<char*>(malloc(v.s.size() + 1));
      memcpy(tmp, v.s.data(), v.s.size());
      bool r = dst.set(serialized(static_cast<const char*>(tmp), v.s.size()));
      memset(tmp, 0xEE, v.s.size() + 1);
      free(tmp);
      return r;
    }
    default:
      throw HarnessError("realSetValue on a container");
  }
}

void HistSim::buildInto(JsonVariant dst, const Val& v, size_t ix, size_t& arg) {
  if (v.k == K::Arr) {
    JsonArray a = dst.to<JsonArray>();
    for (auto& e : v.a) {
      if (e.isContainer()) {
        buildInto(a.add<JsonVariant>(), e, ix, arg);
      } else if (mix64(ix + arg) & 1) {
        // add(value) directly
        JsonVariant slot = a.add<JsonVariant>();
        realSetValue(slot, e, ix, arg++);
      } else {
        JsonDocument one(&tmpAlloc_);
        realSetValue(one.to<JsonVariant>(), e, ix, arg++);
        a.add(one.as<JsonVariantConst>());
      }
    }
  } else if (v.k == K::Obj) {
    JsonObject o = dst.to<JsonObject>();
    for (auto& m : v.o) {
      Src ks = pickSrc(ix, arg++, m.first, false);
      JsonVariant slot = withStr(ks, m.first, arena_, [&](auto&& key) -> JsonVariant { return o[key].template to<JsonVariant>(); });
      if (m.second.isContainer())
        buildInto(slot, m.second, ix, arg);
      else
        realSetValue(slot, m.second, ix, arg++);
    }
  } else {
    realSetValue(dst, v, ix, arg++);
  }
}

void HistSim::buildTemp(JsonDocument& tmp, const Val& v, size_t ix) {
  size_t arg = 100;
  buildInto(tmp.to<JsonVariant>(), v, ix, arg);
  if (tmp.overflowed())
    throw HarnessError("temp document overflowed");
}

// ======================================================================= judging

void HistSim::startFaults(const Op& op) {
  lastOpFailable_ = lastOpFaults_ = 0;
  for (auto& a : allocs_) {
    a->beginOp();
    a->faults.clearOp();
    if (op.has("fa"))
      a->faults.failAt.insert(op.unum("fa"));
    if (op.has("fa2"))
      a->faults.failAt.insert(op.unum("fa2"));
    if (op.has("ff"))
      a->faults.failFrom = op.unum("ff");
  }
  faultsActive_ = op.has("fa") || op.has("ff") || op.has("fa2");
}

void HistSim::stopFaults() {
  for (auto& a : allocs_) {
    lastOpFailable_ += a->nFailableOp;
    lastOpFaults_ += a->nFaultsFiredOp;
    a->faults.clearOp();
  }
  if (lastOpFaults_)
    count("fault.alloc_fired", lastOpFaults_);
  faultsActive_ = false;
}

void HistSim::beginOp(Judge& j, int doc, const std::vector<Sel>& region) {
  j.doc = doc;
  j.region = region;
  if (doc >= 0)
    j.pre = docs_[size_t(doc)].model;
}

bool HistSim::eqExcept(const Val& pre, const Val& post, const std::vector<Sel>& path, size_t depth) {
  if (depth == path.size())
    return true;  // the region itself: any well-formed value
  const Sel& s = path[depth];
  if (pre.k == K::Null) {
    if (post.k == K::Null)
      return true;
    if (s.isKey && post.k == K::Obj) {
      if (post.o.size() > 1)
        return false;
      return post.o.empty() || post.o[0].first == s.key;
    }
    if (!s.isKey && post.k == K::Arr) {
      if (post.a.size() > s.idx + 1)
        return false;
      for (size_t q = 0; q < post.a.size() && q < s.idx; q++)
        if (post.a[q].k != K::Null)
          return false;
      return true;
    }
    return false;
  }
  if (pre.k != post.k)
    return false;
  if (pre.k == K::Obj) {
    if (!s.isKey)
      return sameValue(pre, post);
    size_t n = pre.o.size();
    if (post.o.size() < n || post.o.size() > n + 1)
      return false;
    int first = pre.memberIndex(s.key);
    for (size_t q = 0; q < n; q++) {
      if (pre.o[q].first != post.o[q].first)
        return false;
      if (int(q) == first) {
        if (!eqExcept(pre.o[q].second, post.o[q].second, path, depth + 1))
          return false;
      } else if (!sameValue(pre.o[q].second, post.o[q].second)) {
        return false;
      }
    }
    if (post.o.size() == n + 1) {
      if (first >= 0 || post.o[n].first != s.key)
        return false;
      // a member created for this path: below it only the path may exist
      Val none;
      return eqExcept(none, post.o[n].second, path, depth + 1) || depth + 1 == path.size();
    }
    return true;
  }
  if (pre.k == K::Arr) {
    if (s.isKey)
      return sameValue(pre, post);
    size_t n = pre.a.size();
    if (post.a.size() < n)
      return false;
    if (post.a.size() > std::max(n, s.idx + 1))
      return false;
    for (size_t q = 0; q < post.a.size(); q++) {
      if (q == s.idx) {
        Val none;
        if (!eqExcept(q < n ? pre.a[q] : none, post.a[q], path, depth + 1))
          return false;
      } else if (q < n) {
        if (!sameValue(pre.a[q], post.a[q]))
          return false;
      } else if (post.a[q].k != K::Null) {
        return false;
      }
    }
    return true;
  }
  // a scalar on the path: the operation cannot descend, nothing may change
  return sameValue(pre, post);
}

void HistSim::adoptFloats(Val& m, const Val& r) {
  if (m.isNum() && r.isNum()) {
    uint32_t keep = m.id;
    m = r;
    m.id = keep;
    return;
  }
  if (m.k == K::Arr && r.k == K::Arr && m.a.size() == r.a.size())
    for (size_t j = 0; j < m.a.size(); j++)
      adoptFloats(m.a[j], r.a[j]);
  if (m.k == K::Obj && r.k == K::Obj && m.o.size() == r.o.size())
    for (size_t j = 0; j < m.o.size(); j++)
      adoptFloats(m.o[j].second, r.o[j].second);
}

void HistSim::checkDoc(int d, const char* when) {
  auto& ds = docs_[size_t(d)];
  WalkOpts wo;
  Val e = extract(ds.doc->as<JsonVariantConst>(), wo);
  if (!sameValue(e, ds.model))
    violate("C04:walk-mismatch", std::string(when) + ": document #" + std::to_string(d) +
                                     " differs from the model at " + firstDiff(ds.model, e) +
                                     " [model | document]");
  if (ds.doc->size() != ds.model.size() || ds.doc->nesting() != ds.model.nesting())
    violate("C04:walk-mismatch", "document size()/nesting() differ from the model");
  if (ds.doc->isNull() != (ds.model.k == K::Null))
    violate("C04:walk-mismatch", "document isNull() differs from the model");
  // the read API of a const document, and the implicit conversions of a document to a reference
  const JsonDocument& cd = *ds.doc;
  JsonVariantConst viaConv = cd;
  JsonVariant viaConvMut = *ds.doc;
  if (viaConv.size() != ds.model.size() || viaConvMut.size() != ds.model.size() || viaConv.isNull() != (ds.model.k == K::Null) ||
      cd.size() != ds.model.size() || cd.nesting() != ds.model.nesting() || cd.is<JsonArrayConst>() != (ds.model.k == K::Arr) ||
      cd.is<JsonObjectConst>() != (ds.model.k == K::Obj))
    violate("C04:walk-mismatch", "const document / document converted to a reference disagree with the model");
  if (ds.model.k == K::Arr && !ds.model.a.empty()) {
    size_t last = ds.model.a.size() - 1;
    JsonVariantConst e = cd[last];
    if (e.isNull() != (ds.model.a[last].k == K::Null) || e.size() != ds.model.a[last].size() || !cd[last + 1].isNull())
      violate("C04:walk-mismatch", "const document [index] disagrees with the model");
  } else if (ds.model.k == K::Obj && !ds.model.o.empty()) {
    const std::string& key = ds.model.o.back().first;
    const Val& want = ds.model.o[size_t(ds.model.memberIndex(key))].second;
    JsonVariantConst e = cd[key];
    if (e.isNull() != (want.k == K::Null) || e.size() != want.size() || e.is<const char*>() != (want.k == K::Str))
      violate("C04:walk-mismatch", "const document [key] disagrees with the model");
  }
}

void HistSim::checkRefs() {
  for (auto& r : refs_) {
    if (!r.alive || r.root)
      continue;
    Val* n = findNode(r.doc, r.node);
    if (!n)
      throw HarnessError("live reference without model node");
    WalkOpts wo;
    wo.cls = "C04:stale-reference";
    wo.lookups = false;
    Val e = extract(realConst(r), wo);
    if (!sameValue(e, *n))
      violate("C04:stale-reference", "a live reference (view " + std::string(1, r.view) +
                                         ") no longer designates its value: " + firstDiff(*n, e) +
                                         " [model | through the reference]");
    // the accessors of the typed handle itself
    if (r.view == 'v') {
      if (r.v.is<JsonArray>() != (n->k == K::Arr) || r.v.is<JsonObject>() != (n->k == K::Obj) || !r.v.is<JsonVariant>() ||
          !r.v.is<JsonVariantConst>() || r.v.is<std::nullptr_t>() != (n->k == K::Null) || r.v.isNull() != (n->k == K::Null) ||
          r.v.isUnbound() || r.v.as<JsonArray>().isNull() != (n->k != K::Arr) || r.v.as<JsonObject>().isNull() != (n->k != K::Obj))
        violate("C04:stale-reference", "JsonVariant handle: is<JsonArray/JsonObject/JsonVariant/nullptr_t>() differ from the model");
    } else if (r.view == 'a') {
      if (r.a.isNull() != (n->k != K::Arr) || bool(r.a) != (n->k == K::Arr) || r.a.size() != (n->k == K::Arr ? n->a.size() : 0) ||
          r.a.nesting() != (n->k == K::Arr ? n->nesting() : 0))
        violate("C04:stale-reference", "JsonArray handle: isNull()/bool/size()/nesting() differ from the model");
      size_t k = 0;
      for (auto it = r.a.begin(); it != r.a.end(); ++it, ++k) {
        if (k >= n->a.size() || it->isNull() != (n->a[k].k == K::Null) || !(it == it))
          violate("C04:stale-reference", "JsonArray handle: iterator disagrees with the model at element " + std::to_string(k));
      }
      if (n->k == K::Arr && k != n->a.size())
        violate("C04:stale-reference", "JsonArray handle: iteration ends after " + std::to_string(k) + " elements");
    } else if (r.view == 'o') {
      if (r.o.isNull() != (n->k != K::Obj) || bool(r.o) != (n->k == K::Obj) || r.o.size() != (n->k == K::Obj ? n->o.size() : 0) ||
          r.o.nesting() != (n->k == K::Obj ? n->nesting() : 0))
        violate("C04:stale-reference", "JsonObject handle: isNull()/bool/size()/nesting() differ from the model");
      size_t k = 0;
      for (auto it = r.o.begin(); it != r.o.end(); ++it, ++k) {
        if (k >= n->o.size() || !(it == it))
          violate("C04:stale-reference", "JsonObject handle: iterator runs past the model's members");
        JsonString key = it->key();
        if (std::string(key.c_str(), key.size()) != n->o[k].first || it->value().isNull() != (n->o[k].second.k == K::Null))
          violate("C04:stale-reference", "JsonObject handle: iterator disagrees with the model at member " + std::to_string(k));
      }
      if (n->k == K::Obj && k != n->o.size())
        violate("C04:stale-reference", "JsonObject handle: iteration ends after " + std::to_string(k) + " members");
    }
  }
}

// Called after the real operation. Decides absorbed / failed / strict, re-synchronises the
// model after a legitimate failure, then runs the cross-checks.
void HistSim::endOp(Judge& j, const Op& op, size_t ix) {
  stopFaults();
  if (!real_) {
    pruneRefs();
    return;
  }
  bool relaxed = false;
  if (j.doc >= 0) {
    auto& ds = docs_[size_t(j.doc)];
    bool ovfNow = ds.doc->overflowed();
    bool hadFault = lastOpFaults_ > 0;
    if (hadFault || ovfNow)
      ds.leaky = true;  // a failed allocation (injected, or a capacity limit) may strand slots and strings
    relaxed = hadFault || ds.ovf || ovfNow;
    if (opt.mode == "free" || opt.mode == "twin" || opt.mode == "enum") {
      bool tolerated = false;
      if (ovfNow) {
        // known finding (DESIGN §6, defect 13): shrinkToFit() cuts the last pool down to its usage, the ids of the
        // slots cut off are never handed out again, and once every pool index is taken the document is "full"
        // although far fewer than NULL_SLOT slots exist. Recognised by that very state.
        verif::PoolGeometry g = verif::Inspector::geometry(*ds.doc);
        bool idsBurnt = g.pools >= g.maxPools && g.deadPools == 0 && g.usedSlots == g.slotCapacity &&
                        g.slotCapacity < size_t(verif::Inspector::NULLSLOT);
        static const char* kSig = "ovf:shrink-burnt-pool-ids";
        // a long history may really use up the slot ids of a small build: that is the limit, not a finding
        // (the model already holds what the operation was to build: count the slots that takes)
        size_t wanted = 0;
        visitc(ds.model, [&](const Val& x) {
          wanted += x.a.size() + 2 * x.o.size();
          if ((x.k == K::Int && (x.i < INT32_MIN || x.i > INT32_MAX)) || (x.k == K::UInt && x.u > 0xFFFFFFFFull) || x.k == K::Double)
            wanted++;
        });
        bool limitReached = g.deadPools == 0 && wanted + 4 > size_t(verif::Inspector::NULLSLOT);
        if (limitReached) {
          count("free.slot_limit_reached");
          tolerated = true;
          obsInvalid = true;
          limitSeen_ = true;
        } else if (ds.ovf && (limitSeen_ || obsInvalid)) {
          // overflowed() is sticky: it was already set, for a reason accepted above, before this operation started
          tolerated = true;
        } else if (idsBurnt && opt.skipKnown && opt.known.count(kSig)) {
          count("known.shrink_burnt_pool_ids");
          tolerated = true;
          obsInvalid = true;  // this build met a (spurious) limit: its transcript is not comparable across builds
        } else {
          violate("C19:spurious-overflow",
                  std::string("overflowed() became true although no allocation failed and no limit is near") +
                      (idsBurnt ? std::string(" [signature ") + kSig + ": " + std::to_string(g.pools) + " of " +
                                      std::to_string(g.maxPools) + " pool indexes in use, all full, holding " +
                                      std::to_string(g.slotCapacity) + " slots]"
                                : std::string()) +
                      " (op " + op.text().substr(0, 120) + ")");
        }
      }
      if (!tolerated)
        relaxed = false;
    }
    if (relaxed) {
      WalkOpts wo;
      wo.cls = "C05:malformed-after-failure";
      Val e = extract(ds.doc->as<JsonVariantConst>(), wo);
      bool stateAsPredicted = sameValue(e, ds.model);
      if (!stateAsPredicted && j.floatsFromText && looselyEqual(ds.model, e)) {
        adoptFloats(ds.model, e);  // numbers came through text: precision is not this check's business
        stateAsPredicted = true;
      }
      if (stateAsPredicted) {
        // absorbed, or succeeded with the sticky flag turning a void-converter's result to false
        if (j.hasReturn && j.actual != j.predicted) {
          if (!(j.predicted && !j.actual && ovfNow))
            violate("C05:wrong-return", "operation had its full effect but returned " + std::to_string(j.actual) +
                                            " (expected " + std::to_string(j.predicted) + ")");
          count("c05.sticky_false");
        } else if (hadFault) {
          count("c05.absorbed");
        }
      } else {
        // the operation did not have its effect: it must say so
        if (!ovfNow)
          violate("C05:unreported-failure",
                  "operation lost its effect after an allocation failure but overflowed() is false: " +
                      firstDiff(ds.model, e) + " [model | document]");
        if (j.hasReturn && j.actual)
          violate("C05:unreported-failure",
                  "operation lost its effect after an allocation failure but reported success: " +
                      firstDiff(ds.model, e) + " [model | document]");
        if (!eqExcept(j.pre, e, j.region, 0))
          violate("C05:collateral-damage", "after a failed operation a value outside the path being modified changed: " +
                                               firstDiff(j.pre, e) + " [before | after]");
        count(hadFault ? "c05.failed_cleanly" : "c05.failed_after_overflow");
        // re-synchronise the model (validated just above)
        uint32_t keep = ds.model.id;
        ds.model = e;
        freshIds(ds.model, false);
        ds.model.id = keep;
        dropDocRefs(j.doc);
      }
      ds.ovf = ovfNow;
    } else {
      if (j.hasReturn && j.actual != j.predicted)
        violate("C04:wrong-return", "operation returned " + std::to_string(j.actual) + ", the model predicts " +
                                        std::to_string(j.predicted) + " (op " + op.text().substr(0, 160) + ")");
      if (j.floatsFromText) {
        WalkOpts wo;
        Val e = extract(ds.doc->as<JsonVariantConst>(), wo);
        std::string why;
        if (!looselyEqual(ds.model, e, &why))
          violate("C04:walk-mismatch", "after deserialization: " + why);
        adoptFloats(ds.model, e);
      }
      ds.ovf = ovfNow;
    }
  }
  if (j.hasReturn)
    obs.u(j.actual);
  pruneRefs();
  checkAll(op, ix, relaxed, j.doc);
  collectLinkedBuffers();
}

// Model and documents agree at this point. A linked string's buffer belongs to the caller, who may
// release it as soon as no value refers to it: do so, so that a value that still (wrongly) points
// into it is caught by the next walk.
void HistSim::collectLinkedBuffers() {
  if (!real_ || (opt.replica != 0 && opt.replica != 'M'))
    return;
  std::set<std::string> live;
  for (auto& ds : docs_)
    visitc(ds.model, [&](const Val& x) {
      if (x.k == K::Str && x.linked)
        live.insert(x.s);
    });
  size_t n = arena_.collect(live);
  if (n)
    count("fault.linked_buffer_released", n);
}

void HistSim::checkAll(const Op& op, size_t ix, bool relaxedDoc, int relaxedIdx) {
  (void)op;
  (void)ix;
  for (int d = 0; d < ndocs(); d++) {
    auto& ds = docs_[size_t(d)];
    checkDoc(d, "after op");
    if (t_)
      t_->u(valueHash(ds.model));
    obs.u(valueHash(ds.model));
    if (opt.inspect) {
      bool leaks = ds.leaky || (relaxedDoc && relaxedIdx == d);
      // after a failed allocation slots may be stranded, but the structure must stay sound; at a
      // capacity limit the same holds and identifiers / counters must not have wrapped (C19)
      const char* shapeCls = !leaks ? "C04:shape" : opt.mode == "limit" ? "C19:shape-at-limit" : "C05:shape-after-failure";
      auto rep = verif::Inspector::checkShape(*ds.doc, shapeCls, leaks);
      if (!rep.refUnderflow.empty())
        violate(opt.mode == "limit" ? "C19:refcount-wrapped" : "C06:string-refcount", rep.refUnderflow);
      if (!leaks) {
        if (rep.leaked)
          violate("C06:slot-leak", std::to_string(rep.leaked) +
                                       " slot(s) are neither reachable nor on the free list although no allocation failed");
        if (!rep.refMismatch.empty())
          violate("C06:string-refcount", rep.refMismatch);
      }
      g_stats.c["states.hash_xor"] ^= mix64(rep.stateHash);
      sketch("states", rep.stateHash);
      count("inspect.checks");
      if (!leaks && opt.replica == 0 && (opt.mode == "free" || opt.mode == "limit" || opt.mode == "enum")) {
        // de-duplication: equal copied strings are stored once. Values created by the API from
        // MsgPackBinary/MsgPackExtension bypass the lookup, so each may have a node of its own.
        std::set<std::string> distinct;
        size_t binLike = 0;
        visitc(ds.model, [&](const Val& x) {
          if (x.k == K::Str && !x.linked)
            distinct.insert(x.s);
          if (x.k == K::Raw) {
            distinct.insert(x.s);
            if (!x.s.empty() && (unsigned char)x.s[0] >= 0x80)
              binLike++;
          }
          for (auto& m : x.o)
            distinct.insert(m.first);
        });
        auto g = verif::Inspector::geometry(*ds.doc);
        if (g.stringNodes < distinct.size() || g.stringNodes > distinct.size() + binLike)
          violate("C06:string-dedup", "the document holds " + std::to_string(g.stringNodes) + " string blocks for " +
                                          std::to_string(distinct.size()) + " distinct copied strings (+" +
                                          std::to_string(binLike) + " binary values)");
        if (!distinct.empty())
          count("probe.dedup_checked");
        // reuse: a new pool is requested only when the free list is empty
        if (g.pools > poolsBefore_[size_t(d)] && g.freeListLen > 0 && poolsBefore_[size_t(d)] != SIZE_MAX)
          violate("C06:no-reuse", "a new pool was requested while " + std::to_string(g.freeListLen) +
                                      " released slot(s) were still on the free list");
        if (g.freeListLen)
          count("probe.free_list_nonempty");
        poolsBefore_[size_t(d)] = g.pools;
      } else {
        poolsBefore_[size_t(d)] = SIZE_MAX;
      }
    }
  }
  checkRefs();
}

// ======================================================================= operations

static bool isVoidConverterValue(const Val& v) {
  return v.k == K::Null || v.k == K::Str || v.k == K::Raw || v.isContainer();
}

void HistSim::opSet(const Op& op, size_t ix) {
  Ref* h = resolve(op, "h");
  if (h->view == 'c') {
    lastSkip = "const-view";
    return;
  }
  Val v = parseText(op.str("v"));
  normalise(v, kUseDouble);
  Val* node = findNode(h->doc, h->node);
  Judge j;
  beginOp(j, h->doc, pathOf(h->doc, h->node));
  assignContent(*node, v);
  j.predicted = true;
  j.voidConverter = isVoidConverterValue(v);
  if (real_) {
    startFaults(op);
    JsonVariant dst = realVariant(*h);
    if (v.isContainer()) {
      JsonDocument tmp(&tmpAlloc_);
      for (auto& a : allocs_)
        a->faults.clearOp();  // building the source is not the operation under test
      buildTemp(tmp, v, ix);
      startFaults(op);
      if (op.num("src") == 1 && v.k == K::Arr)
        j.actual = dst.set(tmp.as<JsonArrayConst>());
      else if (op.num("src") == 1 && v.k == K::Obj)
        j.actual = dst.set(tmp.as<JsonObjectConst>());
      else if (op.num("src") == 2)
        j.actual = dst.set(tmp);  // a JsonDocument as source
      else
        j.actual = dst.set(tmp.as<JsonVariantConst>());
    } else {
      j.actual = realSetValue(dst, v, ix, 0);
    }
  }
  endOp(j, op, ix);
}

void HistSim::opAdd(const Op& op, size_t ix) {
  Ref* h = resolve(op, "h");
  if (h->view == 'c' || h->view == 'o') {
    lastSkip = "view";
    return;
  }
  Val v = parseText(op.str("v"));
  normalise(v, kUseDouble);
  Val* node = findNode(h->doc, h->node);
  Judge j;
  auto region = pathOf(h->doc, h->node);
  bool ok = node->k == K::Null || node->k == K::Arr;
  if (h->view == 'a')
    ok = true;
  region.push_back(Sel::i(node->k == K::Arr ? node->a.size() : 0));
  beginOp(j, h->doc, region);
  auto& ds = docs_[size_t(h->doc)];
  // With the sticky overflow flag set, add() of a string/variant currently gives the slot back and
  // returns false although memory is available. Whether it does is not part of any property: the
  // model follows what the call answers (decided after the call, below).
  bool followReturn = ok && ds.ovf && isVoidConverterValue(v) && real_;
  uint32_t nodeId = node->id;
  if (ok) {
    if (node->k == K::Null)
      node->clearTo(K::Arr);
    if (!followReturn)
      node->a.push_back(withIds(v));
  }
  j.predicted = ok;
  if (real_) {
    startFaults(op);
    JsonDocument tmp(&tmpAlloc_);
    if (v.isContainer()) {
      buildTemp(tmp, v, ix);
      startFaults(op);
    }
    bool viadoc = h->root && op.num("via") == 1;
    if (h->view == 'a') {
      if (v.isContainer())
        j.actual = h->a.add(tmp.as<JsonVariantConst>());
      else {
        // add(T) for a few representative T
        switch (v.k) {
          case K::Str: {
            Src s = pickSrc(ix, 0, v.s, v.linked);
            j.actual = withStr(s, v.s, arena_, [&](auto&& x) { return h->a.add(x); });
            break;
          }
          case K::UInt:
            j.actual = h->a.add(v.u);
            break;
          case K::Int:
            j.actual = h->a.add(v.i);
            break;
          case K::Bool:
            j.actual = h->a.add(v.b);
            break;
          case K::Float:
            j.actual = h->a.add(v.f);
            break;
          case K::Double:
            j.actual = h->a.add(v.d);
            break;
          default: {
            JsonDocument one(&tmpAlloc_);
            realSetValue(one.to<JsonVariant>(), v, ix, 0);
            j.actual = h->a.add(one.as<JsonVariantConst>());
          }
        }
      }
    } else if (viadoc) {
      JsonDocument& d = *ds.doc;
      if (v.isContainer())
        j.actual = d.add(tmp.as<JsonVariantConst>());
      else if (v.k == K::Str) {
        Src s = pickSrc(ix, 0, v.s, v.linked);
        j.actual = withStr(s, v.s, arena_, [&](auto&& x) { return d.add(x); });
      } else if (v.k == K::UInt)
        j.actual = d.add(v.u);
      else if (v.k == K::Int)
        j.actual = d.add(v.i);
      else if (v.k == K::Double)
        j.actual = d.add(v.d);
      else {
        JsonDocument one(&tmpAlloc_);
        realSetValue(one.to<JsonVariant>(), v, ix, 0);
        j.actual = d.add(one.as<JsonVariantConst>());
      }
    } else {
      JsonVariant dst = realVariant(*h);
      if (v.isContainer())
        j.actual = dst.add(tmp.as<JsonVariantConst>());
      else if (v.k == K::Str) {
        Src s = pickSrc(ix, 0, v.s, v.linked);
        j.actual = withStr(s, v.s, arena_, [&](auto&& x) { return dst.add(x); });
      } else if (v.k == K::UInt)
        j.actual = dst.add(v.u);
      else if (v.k == K::Int)
        j.actual = dst.add(v.i);
      else if (v.k == K::Bool)
        j.actual = dst.add(v.b);
      else if (v.k == K::Float)
        j.actual = dst.add(v.f);
      else if (v.k == K::Double)
        j.actual = dst.add(v.d);
      else {
        JsonDocument one(&tmpAlloc_);
        realSetValue(one.to<JsonVariant>(), v, ix, 0);
        j.actual = dst.add(one.as<JsonVariantConst>());
      }
    }
  }
  if (followReturn) {
    if (j.actual)
      findNode(h->doc, nodeId)->a.push_back(withIds(v));
    j.predicted = j.actual;
  }
  endOp(j, op, ix);
}

void HistSim::opAddNew(const Op& op, size_t ix) {
  Ref* h = resolve(op, "h");
  if (h->view == 'c' || h->view == 'o') {
    lastSkip = "view";
    return;
  }
  int doc = h->doc;
  Val* node = findNode(doc, h->node);
  char kind = op.str("kind", "v")[0];
  Judge j;
  auto region = pathOf(doc, h->node);
  region.push_back(Sel::i(node->k == K::Arr ? node->a.size() : 0));
  beginOp(j, doc, region);
  bool ok = node->k == K::Null || node->k == K::Arr;
  uint32_t nid = 0;
  if (ok) {
    if (node->k == K::Null)
      node->clearTo(K::Arr);
    Val nv;
    nv.k = kind == 'a' ? K::Arr : kind == 'o' ? K::Obj : K::Null;
    nv.id = nid = newId();
    node->a.push_back(nv);
  }
  j.predicted = ok;
  size_t ri = 0;
  if (ok)
    ri = addRef(doc, nid, kind);
  if (real_) {
    startFaults(op);
    bool viadoc = h->root && op.num("via") == 1;
    JsonDocument& d = *docs_[size_t(doc)].doc;
    JsonVariant dst = realVariant(*h);
    bool bound;
    JsonVariant nv;
    JsonArray na;
    JsonObject no;
    if (kind == 'a') {
      na = h->view == 'a' ? h->a.add<JsonArray>() : viadoc ? d.add<JsonArray>() : dst.add<JsonArray>();
      bound = !na.isNull();
    } else if (kind == 'o') {
      no = h->view == 'a' ? h->a.add<JsonObject>() : viadoc ? d.add<JsonObject>() : dst.add<JsonObject>();
      bound = !no.isNull();
    } else {
      nv = h->view == 'a' ? h->a.add<JsonVariant>() : viadoc ? d.add<JsonVariant>() : dst.add<JsonVariant>();
      bound = !nv.isUnbound();
    }
    j.actual = bound;
    if (ok) {
      refs_[ri].v = nv;
      refs_[ri].a = na;
      refs_[ri].o = no;
      if (!bound)
        refs_[ri].alive = false;
    }
  }
  endOp(j, op, ix);
}

// h[sel] = v   (MemberProxy / ElementProxy, set() or operator=)
void HistSim::opSetSel(const Op& op, size_t ix) {
  Ref* h = resolve(op, "h");
  Sel s = Sel::parse(op.str("s"));
  if (h->view == 'c' || (h->view == 'a' && s.isKey) || (h->view == 'o' && !s.isKey)) {
    lastSkip = "view";
    return;
  }
  Val v = parseText(op.str("v"));
  normalise(v, kUseDouble);
  int doc = h->doc;
  Val* node = findNode(doc, h->node);
  Judge j;
  auto region = pathOf(doc, h->node);
  region.push_back(s);
  beginOp(j, doc, region);
  K kindBefore = node->k;
  Val* slot = mGetOrCreate(*node, s);
  if (slot)
    assignContent(*slot, v);
  // when the slot cannot exist (wrong kind of parent) nothing happens; converters that
  // return void report "not overflowed" in that case, i.e. true
  j.predicted = slot != nullptr || isVoidConverterValue(v);
  bool assign = op.num("via") == 2;  // operator= : no return value
  if (assign || !slot)
    j.hasReturn = false;  // on a slot that cannot exist nothing happens; what set() answers then is not specified
  if (real_) {
    startFaults(op);
    JsonDocument tmp(&tmpAlloc_);
    if (v.isContainer()) {
      buildTemp(tmp, v, ix);
      startFaults(op);
    }
    bool viadoc = h->root && op.num("via") == 1;
    JsonDocument& d = *docs_[size_t(doc)].doc;
    auto apply = [&](auto&& proxy) -> bool {
      if (v.isContainer()) {
        if (assign) {
          proxy = tmp.as<JsonVariantConst>();
          return true;
        }
        return proxy.set(tmp.as<JsonVariantConst>());
      }
      if (v.k == K::Str) {
        Src vs = pickSrc(ix, 1, v.s, v.linked);
        return withStr(vs, v.s, arena_, [&](auto&& x) -> bool {
          if (assign) {
            proxy = x;
            return true;
          }
          return proxy.set(x);
        });
      }
      if (assign) {
        switch (v.k) {
          case K::UInt:
            proxy = v.u;
            return true;
          case K::Int:
            proxy = v.i;
            return true;
          case K::Bool:
            proxy = v.b;
            return true;
          case K::Double:
            proxy = v.d;
            return true;
          default:
            break;
        }
      }
      // conversion of a proxy to JsonVariant does not create; to<>() would clear: go through set()
      switch (v.k) {
        case K::Null:
          return proxy.set(nullptr);
        case K::Bool:
          return proxy.set(v.b);
        case K::Int:
          return proxy.set(v.i);
        case K::UInt:
          return proxy.set(v.u);
        case K::Float:
          return proxy.set(v.f);
        case K::Double:
          return proxy.set(v.d);
        default: {
          JsonDocument one(&tmpAlloc_);
          realSetValue(one.to<JsonVariant>(), v, ix, 1);
          return proxy.set(one.as<JsonVariantConst>());
        }
      }
    };
    // vk=1: the key (or index) is itself a value of another document (obj[variant] / arr[variant]); that
    // document is gone when the call returns, so the new member must not depend on it
    bool vk = op.num("vk") == 1 && ((h->view == 'o' && s.isKey) || (h->view == 'a' && !s.isKey) ||
                                     (h->view == 'v' && !viadoc && ((s.isKey && kindBefore == K::Obj) || (!s.isKey && kindBefore == K::Arr))));
    if (vk) {
      JsonDocument* kd = new JsonDocument(&tmpAlloc_);
      if (s.isKey)
        kd->set(JsonString(s.key.data(), s.key.size(), JsonString::Copied));
      else
        kd->set(s.idx);
      JsonVariantConst kv = kd->as<JsonVariantConst>();
      count("op.sets_variant_key");
      if (s.isKey) {
        JsonObject o = h->view == 'o' ? h->o : realVariant(*h).as<JsonObject>();
        j.actual = apply(o[kv]);
      } else {
        JsonArray a = h->view == 'a' ? h->a : realVariant(*h).as<JsonArray>();
        j.actual = apply(a[kv]);
      }
      delete kd;
    } else if (s.isKey) {
      // the value is a string too: keep the product of instantiations small by using
      // sized/zero-terminated representatives for the key
      Src ks = pickSrc(ix, 0, s.key, false);
      if (opt.replica == 0 && op.has("klink"))
        ks = srcFit(Src::Lit, s.key);
      if (h->view == 'o')
        j.actual = withStr(ks, s.key, arena_, [&](auto&& key) { return apply(h->o[key]); });
      else if (viadoc)
        j.actual = withStr(ks, s.key, arena_, [&](auto&& key) { return apply(d[key]); });
      else {
        JsonVariant dst = realVariant(*h);
        j.actual = withStr(ks, s.key, arena_, [&](auto&& key) { return apply(dst[key]); });
      }
    } else {
      if (h->view == 'a')
        j.actual = apply(h->a[s.idx]);
      else if (viadoc)
        j.actual = apply(d[s.idx]);
      else {
        JsonVariant dst = realVariant(*h);
        j.actual = apply(dst[s.idx]);
      }
    }
  }
  endOp(j, op, ix);
}

// h[s1][s2] = v
void HistSim::opSet2(const Op& op, size_t ix) {
  Ref* h = resolve(op, "h");
  Sel s1 = Sel::parse(op.str("s1")), s2 = Sel::parse(op.str("s2"));
  if (h->view != 'v') {
    lastSkip = "view";
    return;
  }
  Val v = parseText(op.str("v"));
  normalise(v, kUseDouble);
  if (v.isContainer())
    v = Val::integer(7);
  int doc = h->doc;
  Val* node = findNode(doc, h->node);
  Judge j;
  auto region = pathOf(doc, h->node);
  region.push_back(s1);
  region.push_back(s2);
  beginOp(j, doc, region);
  Val* mid = mGetOrCreate(*node, s1);
  Val* slot = mid ? mGetOrCreate(*mid, s2) : nullptr;
  if (slot)
    assignContent(*slot, v);
  // values other than these three travel through a temporary variant below (void converter)
  j.predicted = slot != nullptr || !(v.k == K::UInt || v.k == K::Int || v.k == K::Double);
  if (!slot)
    j.hasReturn = false;  // as in opSetSel
  if (real_) {
    startFaults(op);
    bool viadoc = h->root && op.num("via") == 1;
    JsonDocument& d = *docs_[size_t(doc)].doc;
    JsonVariant dst = realVariant(*h);
    auto setv = [&](auto&& proxy) -> bool {
      JsonDocument one(&tmpAlloc_);
      if (v.k == K::Str) {
        Src vs = pickSrc(ix, 2, v.s, v.linked);
        return withStr(vs, v.s, arena_, [&](auto&& x) { return proxy.set(x); });
      }
      if (v.k == K::UInt)
        return proxy.set(v.u);
      if (v.k == K::Int)
        return proxy.set(v.i);
      if (v.k == K::Double)
        return proxy.set(v.d);
      realSetValue(one.to<JsonVariant>(), v, ix, 2);
      return proxy.set(one.as<JsonVariantConst>());
    };
    // keys travel as std::string or const char* (linked) here; the single-level op covers all kinds
    std::string k1 = s1.key, k2 = s2.key;
    bool link = opt.replica == 'L';
    const char* l1 = arena_.intern(k1.c_str());
    const char* l2 = arena_.intern(k2.c_str());
    bool nul = k1.find('\0') != std::string::npos || k2.find('\0') != std::string::npos;
    if (nul)
      link = false;
    auto second = [&](auto&& p1) -> bool {
      if (s2.isKey)
        return link ? setv(p1[l2]) : setv(p1[k2]);
      return setv(p1[s2.idx]);
    };
    if (s1.isKey) {
      if (viadoc)
        j.actual = link ? second(d[l1]) : second(d[k1]);
      else
        j.actual = link ? second(dst[l1]) : second(dst[k1]);
    } else {
      if (viadoc)
        j.actual = second(d[s1.idx]);
      else
        j.actual = second(dst[s1.idx]);
    }
  }
  endOp(j, op, ix);
}

void HistSim::opTo(const Op& op, size_t ix) {
  Ref* h = resolve(op, "h");
  if (h->view != 'v') {
    lastSkip = "view";
    return;
  }
  int doc = h->doc;
  char kind = op.str("kind", "a")[0];
  Val* node = findNode(doc, h->node);
  Judge j;
  beginOp(j, doc, pathOf(doc, h->node));
  j.hasReturn = false;
  bool viadoc = h->root && op.num("via") == 1;
  node->clearTo(kind == 'a' ? K::Arr : kind == 'o' ? K::Obj : K::Null);
  pruneRefs();
  size_t ri = addRef(doc, h->node, kind);
  if (h->root) {
    refs_[ri].alive = false;  // root references are always re-fetched
    if (viadoc) {
      // JsonDocument::to<T>() clears the whole document first: pools are released
      dropDocRefs(doc);
      docs_[size_t(doc)].ovf = false;
    }
  }
  if (real_) {
    startFaults(op);
    JsonDocument& d = *docs_[size_t(doc)].doc;
    JsonVariant dst = realVariant(*h);
    if (kind == 'a')
      refs_[ri].a = viadoc ? d.to<JsonArray>() : dst.to<JsonArray>();
    else if (kind == 'o')
      refs_[ri].o = viadoc ? d.to<JsonObject>() : dst.to<JsonObject>();
    else
      refs_[ri].v = viadoc ? d.to<JsonVariant>() : dst.to<JsonVariant>();
    if (viadoc && h->root) {
      docs_[size_t(doc)].leaky = false;
    }
  }
  endOp(j, op, ix);
}

// h[sel].to<T>()
void HistSim::opToSel(const Op& op, size_t ix) {
  Ref* h = resolve(op, "h");
  Sel s = Sel::parse(op.str("s"));
  if (h->view != 'v') {
    lastSkip = "view";
    return;
  }
  int doc = h->doc;
  char kind = op.str("kind", "a")[0];
  Val* node = findNode(doc, h->node);
  Judge j;
  auto region = pathOf(doc, h->node);
  region.push_back(s);
  beginOp(j, doc, region);
  Val* slot = mGetOrCreate(*node, s);
  uint32_t nid = 0;
  if (slot) {
    slot->clearTo(kind == 'a' ? K::Arr : kind == 'o' ? K::Obj : K::Null);
    nid = slot->id;
  }
  j.predicted = slot != nullptr;
  pruneRefs();
  size_t ri = 0;
  if (slot)
    ri = addRef(doc, nid, kind);
  if (real_) {
    startFaults(op);
    JsonVariant dst = realVariant(*h);
    JsonVariant nv;
    JsonArray na;
    JsonObject no;
    bool bound = false;
    auto go = [&](auto&& proxy) {
      if (kind == 'a') {
        na = proxy.template to<JsonArray>();
        bound = !na.isNull();
      } else if (kind == 'o') {
        no = proxy.template to<JsonObject>();
        bound = !no.isNull();
      } else {
        nv = proxy.template to<JsonVariant>();
        bound = !nv.isUnbound();
      }
      return 0;
    };
    if (s.isKey) {
      Src ks = pickSrc(ix, 0, s.key, false);
      withStr(ks, s.key, arena_, [&](auto&& key) { return go(dst[key]); });
    } else {
      go(dst[s.idx]);
    }
    j.actual = bound;
    if (slot) {
      refs_[ri].v = nv;
      refs_[ri].a = na;
      refs_[ri].o = no;
      if (!bound)
        refs_[ri].alive = false;
    }
  }
  endOp(j, op, ix);
}

void HistSim::opRemove(const Op& op, size_t ix) {
  Ref* h = resolve(op, "h");
  Sel s = Sel::parse(op.str("s"));
  if (h->view == 'c' || (h->view == 'a' && s.isKey) || (h->view == 'o' && !s.isKey)) {
    lastSkip = "view";
    return;
  }
  int doc = h->doc;
  Val* node = findNode(doc, h->node);
  Judge j;
  beginOp(j, doc, pathOf(doc, h->node));
  j.hasReturn = false;
  int via = int(op.num("via"));  // 0 variant, 1 document, 2 iterator, 3 remove(variant-as-key)
  bool iter = via == 2 && ((s.isKey && node->k == K::Obj) || (!s.isKey && node->k == K::Arr));
  size_t iterPos = 0;
  if (s.isKey) {
    if (node->k == K::Obj) {
      int m = node->memberIndex(s.key);
      if (m >= 0) {
        iterPos = size_t(m);
        node->o.erase(node->o.begin() + m);
      } else {
        iter = false;
      }
    }
  } else if (node->k == K::Arr) {
    if (s.idx < node->a.size()) {
      iterPos = s.idx;
      node->a.erase(node->a.begin() + long(s.idx));
    } else {
      iter = false;
    }
  }
  if (real_) {
    startFaults(op);
    JsonDocument& d = *docs_[size_t(doc)].doc;
    bool viadoc = h->root && (via == 1 || (via == 3 && (ix & 1)));  // remove(variant) exists on the document too
    JsonVariant dst = realVariant(*h);
    if (iter && s.isKey) {
      JsonObject o = h->view == 'o' ? h->o : dst.as<JsonObject>();
      auto it = o.begin();
      for (size_t q = 0; q < iterPos; q++)
        ++it;
      o.remove(it);
    } else if (iter) {
      JsonArray a = h->view == 'a' ? h->a : dst.as<JsonArray>();
      auto it = a.begin();
      for (size_t q = 0; q < iterPos; q++)
        ++it;
      a.remove(it);
    } else if (s.isKey && via == 4 && node->k == K::Obj) {
      // the key argument is the very key the object hands out while iterating (kv.key()): its characters belong to
      // the member that is being removed
      JsonObject o = h->view == 'o' ? h->o : dst.as<JsonObject>();
      bool found = false;
      for (JsonPair kv : o) {
        JsonString k = kv.key();
        if (std::string(k.c_str(), k.size()) == s.key) {
          count("op.rem_own_key");
          if ((ix & 1) && s.key.find('\0') == std::string::npos)
            o.remove(k.c_str());
          else
            o.remove(k);
          found = true;
          break;
        }
      }
      if (!found) {
        Src ks2 = pickSrc(ix, 0, s.key, false);
        withStr(ks2, s.key, arena_, [&](auto&& key) {
          o.remove(key);
          return 0;
        });
      }
    } else if (s.isKey) {
      Src ks = pickSrc(ix, 0, s.key, false);
      if (via == 3) {
        // remove(JsonVariant key)
        JsonDocument kd(&tmpAlloc_);
        kd.set(s.key);
        if (h->view == 'o')
          h->o.remove(kd.as<JsonVariantConst>());
        else if (viadoc)
          d.remove(kd.as<JsonVariantConst>());
        else
          dst.remove(kd.as<JsonVariantConst>());
      } else if (h->view == 'o')
        withStr(ks, s.key, arena_, [&](auto&& key) {
          h->o.remove(key);
          return 0;
        });
      else if (viadoc)
        withStr(ks, s.key, arena_, [&](auto&& key) {
          d.remove(key);
          return 0;
        });
      else
        withStr(ks, s.key, arena_, [&](auto&& key) {
          dst.remove(key);
          return 0;
        });
    } else {
      if (via == 3) {
        JsonDocument kd(&tmpAlloc_);
        kd.set(s.idx);
        if (h->view == 'a')
          h->a.remove(kd.as<JsonVariantConst>());
        else if (viadoc)
          d.remove(kd.as<JsonVariantConst>());
        else
          dst.remove(kd.as<JsonVariantConst>());
      } else if (h->view == 'a')
        h->a.remove(s.idx);
      else if (viadoc)
        d.remove(s.idx);
      else
        dst.remove(s.idx);
    }
  }
  endOp(j, op, ix);
}

void HistSim::opClear(const Op& op, size_t ix) {
  Ref* h = resolve(op, "h");
  if (h->view == 'c') {
    lastSkip = "view";
    return;
  }
  int doc = h->doc;
  Val* node = findNode(doc, h->node);
  Judge j;
  beginOp(j, doc, pathOf(doc, h->node));
  j.hasReturn = false;
  if (h->view == 'a')
    node->clearTo(K::Arr);
  else if (h->view == 'o')
    node->clearTo(K::Obj);
  else
    node->clearTo(K::Null);
  if (real_) {
    startFaults(op);
    if (h->view == 'a')
      h->a.clear();
    else if (h->view == 'o')
      h->o.clear();
    else
      realVariant(*h).clear();
  }
  // typed views of the node itself stay valid for a/o clear; variant clear drops them in pruneRefs
  endOp(j, op, ix);
}

static std::string aliasClass(HistSim& s, const Ref& dst, const Ref& src) {
  if (dst.doc != src.doc)
    return "";
  if (dst.node == src.node)
    return "copy:self";
  if (s.isAncestorOrSelf(dst.doc, dst.node, src.node))
    return "copy:src-inside-dst";
  if (s.isAncestorOrSelf(dst.doc, src.node, dst.node))
    return "copy:dst-inside-src";
  return "";
}

// dst.set(src) where src is a reference into the same or another document
void HistSim::opCopy(const Op& op, size_t ix) {
  Ref* dst = resolve(op, "h");
  Ref* src = resolve(op, "src");
  if (dst->view != 'v') {
    lastSkip = "view";
    return;
  }
  std::string alias = aliasClass(*this, *dst, *src);
  if (!alias.empty()) {
    const Val* sn = nodeOf(*src);
    std::string sig = alias + (sn->isContainer() ? ":container" : (sn->k == K::Str && (!sn->linked || opt.replica)) || sn->k == K::Raw ? ":owned-string" : ":scalar");
    count(("alias." + sig).c_str());
    if (opt.skipKnown && opt.known.count(sig)) {
      lastSkip = "known:" + sig;
      return;
    }
  }
  int doc = dst->doc;
  Val srcCopy = *findNode(src->doc, src->node);
  Val* node = findNode(doc, dst->node);
  Judge j;
  beginOp(j, doc, pathOf(doc, dst->node));
  assignContent(*node, srcCopy);
  j.voidConverter = true;
  if (real_) {
    startFaults(op);
    JsonVariant d = realVariant(*dst);
    switch (src->root ? 'v' : src->view) {
      case 'a':
        j.actual = op.num("via") == 1 ? d.set(JsonArrayConst(src->a)) : d.set(src->a);
        break;
      case 'o':
        j.actual = op.num("via") == 1 ? d.set(JsonObjectConst(src->o)) : d.set(src->o);
        break;
      case 'c':
        j.actual = d.set(src->c);
        break;
      default:
        if (src->root && op.num("via") == 2 && src->doc != doc)
          j.actual = d.set(*docs_[size_t(src->doc)].doc);
        else if (op.num("via") == 1)
          j.actual = d.set(realConst(*src));
        else
          j.actual = d.set(realVariant(*src));
    }
  }
  endOp(j, op, ix);
}

// JsonArray::set(JsonArrayConst) / JsonObject::set(JsonObjectConst)
void HistSim::opCSet(const Op& op, size_t ix) {
  Ref* dst = resolve(op, "h");
  Ref* src = resolve(op, "src");
  if ((dst->view != 'a' && dst->view != 'o') || src->view != dst->view) {
    lastSkip = "view";
    return;
  }
  std::string alias = aliasClass(*this, *dst, *src);
  if (!alias.empty()) {
    std::string sig = "cset:" + alias.substr(5);
    count(("alias." + sig).c_str());
    if (opt.skipKnown && opt.known.count(sig)) {
      lastSkip = "known:" + sig;
      return;
    }
  }
  int doc = dst->doc;
  Val srcCopy = *findNode(src->doc, src->node);
  Val* node = findNode(doc, dst->node);
  Judge j;
  beginOp(j, doc, pathOf(doc, dst->node));
  assignContent(*node, srcCopy);
  if (real_) {
    startFaults(op);
    if (dst->view == 'a')
      j.actual = dst->a.set(JsonArrayConst(src->a));
    else
      j.actual = dst->o.set(JsonObjectConst(src->o));
  }
  endOp(j, op, ix);
}

// obtain a new reference to a child without creating anything
void HistSim::opTake(const Op& op, size_t ix) {
  Ref* h = resolve(op, "h");
  Sel s = Sel::parse(op.str("s"));
  int doc = h->doc;
  Val* node = findNode(doc, h->node);
  char view = op.str("view", "v")[0];
  Val* child = nullptr;
  if (s.isKey && node->k == K::Obj)
    child = node->member(s.key);
  if (!s.isKey && node->k == K::Arr && s.idx < node->a.size())
    child = &node->a[s.idx];
  if (child && view == 'a' && child->k != K::Arr)
    view = 'v';
  if (child && view == 'o' && child->k != K::Obj)
    view = 'v';
  if (h->view == 'c')
    view = 'c';
  Judge j;
  beginOp(j, doc, pathOf(doc, h->node));
  j.predicted = child != nullptr;
  size_t ri = 0;
  if (child)
    ri = addRef(doc, child->id, view);
  if (real_) {
    startFaults(op);
    uint64_t callsBefore = 0;
    for (auto& a : allocs_)
      callsBefore += a->calls();
    JsonVariant nv;
    JsonVariantConst nc;
    if (h->view == 'c' || view == 'c') {
      JsonVariantConst c = realConst(*h);
      if (s.isKey) {
        Src ks = pickSrc(ix, 0, s.key, false);
        nc = withStr(ks, s.key, arena_, [&](auto&& key) -> JsonVariantConst { return c[key]; });
      } else {
        nc = c[s.idx];
      }
      j.actual = !nc.isUnbound();
    } else {
      JsonVariant d = realVariant(*h);
      if (s.isKey) {
        Src ks = pickSrc(ix, 0, s.key, false);
        nv = withStr(ks, s.key, arena_, [&](auto&& key) -> JsonVariant { return d[key]; });
      } else {
        nv = d[s.idx];
      }
      j.actual = !nv.isUnbound();
    }
    uint64_t callsAfter = 0;
    for (auto& a : allocs_)
      callsAfter += a->calls();
    if (callsAfter != callsBefore)
      violate("C06:readonly-allocates", "a lookup called the allocator");
    if (child && j.actual) {
      Ref& r = refs_[ri];
      if (view == 'c')
        r.c = nc;
      else if (view == 'a')
        r.a = nv.as<JsonArray>();
      else if (view == 'o')
        r.o = nv.as<JsonObject>();
      else
        r.v = nv;
    } else if (child) {
      refs_[ri].alive = false;
    }
  }
  endOp(j, op, ix);
}

void HistSim::opDrop(const Op& op, size_t ix) {
  Ref* h = resolve(op, "h");
  if (!h->root)
    h->alive = false;
  Judge j;
  j.doc = -1;
  j.hasReturn = false;
  startFaults(op);
  endOp(j, op, ix);
}

// document-level operations
void HistSim::opDoc(const Op& op, size_t ix) {
  std::string what = op.str("what");
  int d = docIndex(op, "d");
  int s = docIndex(op, "s");
  auto& D = docs_[size_t(d)];
  auto& S = docs_[size_t(s)];
  Judge j;
  beginOp(j, d, {});
  j.hasReturn = false;
  poolsBefore_[size_t(d)] = poolsBefore_[size_t(s)] = SIZE_MAX;  // pools change hands or are rebuilt
  // does another document use d's current allocator? (evaluated before the model changes)
  bool sharedBefore = false;
  for (int q = 0; q < ndocs(); q++)
    if (q != d && docs_[size_t(q)].alloc == D.alloc)
      sharedBefore = true;
  auto allocOf = [&](int idx) -> Allocator* {
    return idx < 0 ? nullptr : allocs_[size_t(idx)].get();
  };
  auto expectAllocator = [&](DocState& X, const char* when) {
    if (!real_)
      return;
    Allocator* want = allocOf(X.alloc);
    if (want && X.doc->allocator() != want)
      violate("C06:allocator-identity", std::string(when) + ": the document does not use the allocator the API assigns to it");
    if (!want) {
      for (auto& a : allocs_)
        if (X.doc->allocator() == a.get())
          violate("C06:allocator-identity", std::string(when) + ": a moved-from document still holds the user's allocator");
    }
  };
  if (what == "clear") {
    D.model.clearTo(K::Null);
    dropDocRefs(d);
    D.ovf = false;
    if (real_) {
      startFaults(op);
      D.doc->clear();
      D.leaky = false;
      // when no other document shares the allocator, nothing may remain
      bool shared = false;
      for (int q = 0; q < ndocs(); q++)
        if (q != d && docs_[size_t(q)].alloc == D.alloc)
          shared = true;
      if (!shared && D.alloc >= 0)
        allocs_[size_t(D.alloc)]->expectEmpty("C06:leak-after-clear", "after clear()");
      if (D.doc->overflowed())
        violate("C05:overflowed-after-clear", "overflowed() still true after clear()");
    }
  } else if (what == "shrink") {
    dropDocRefs(d);
    if (real_) {
      startFaults(op);
      D.doc->shrinkToFit();
    }
  } else if (what == "copy") {  // d = s  (copy-assignment: by-value parameter + swap)
    if (d == s) {
      // d = d is harmless (by-value parameter), but all references are lost
      dropDocRefs(d);
      if (real_) {
        startFaults(op);
        JsonDocument& ref = *D.doc;
        *D.doc = ref;
      }
    } else {
      assignContent(D.model, S.model);
      dropDocRefs(d);
      D.alloc = S.alloc;
      D.ovf = false;
      j.voidConverter = true;
      if (real_) {
        startFaults(op);
        *D.doc = *S.doc;
        D.leaky = false;
        expectAllocator(D, "after copy-assignment");
      }
    }
  } else if (what == "move") {  // d = std::move(s)
    if (d == s) {
      lastSkip = "self-move";
      return;
    }
    D.model = S.model;  // ids travel with the content, but every reference is dropped anyway
    S.model = Val::null();
    S.model.id = newId();
    D.model.id = newId();
    refs_[size_t(d)].node = D.model.id;
    refs_[size_t(s)].node = S.model.id;
    dropDocRefs(d);
    dropDocRefs(s);
    D.alloc = S.alloc;
    D.ovf = S.ovf;
    D.leaky = S.leaky;
    S.alloc = -1;
    S.ovf = false;
    S.leaky = false;
    if (real_) {
      startFaults(op);
      *D.doc = std::move(*S.doc);
      expectAllocator(D, "after move-assignment");
      expectAllocator(S, "after move-assignment (source)");
    }
  } else if (what == "swap") {
    if (d == s) {
      lastSkip = "self-swap";
      return;
    }
    std::swap(D.model, S.model);
    std::swap(D.model.id, S.model.id);
    std::swap(D.alloc, S.alloc);
    std::swap(D.ovf, S.ovf);
    std::swap(D.leaky, S.leaky);
    dropDocRefs(d);
    dropDocRefs(s);
    if (real_) {
      startFaults(op);
      swap(*D.doc, *S.doc);
      expectAllocator(D, "after swap");
      expectAllocator(S, "after swap");
    }
  } else if (what == "cctor") {  // destroy d, construct it as a copy of s
    if (d == s) {
      lastSkip = "self";
      return;
    }
    assignContent(D.model, S.model);
    dropDocRefs(d);
    int oldAlloc = D.alloc;
    D.alloc = S.alloc;
    D.ovf = false;
    if (real_) {
      startFaults(op);
      delete D.doc;
      D.doc = nullptr;
      if (!sharedBefore && oldAlloc >= 0)
        allocs_[size_t(oldAlloc)]->expectEmpty("C06:leak-at-destruction", "after ~JsonDocument()");
      D.doc = new JsonDocument(*S.doc);
      D.leaky = false;
      expectAllocator(D, "after copy-construction");
    }
  } else if (what == "mctor") {  // destroy d, construct it by moving from s
    if (d == s) {
      lastSkip = "self";
      return;
    }
    D.model = S.model;
    S.model = Val::null();
    S.model.id = newId();
    D.model.id = newId();
    refs_[size_t(d)].node = D.model.id;
    refs_[size_t(s)].node = S.model.id;
    dropDocRefs(d);
    dropDocRefs(s);
    int oldAlloc = D.alloc;
    D.alloc = S.alloc;
    D.ovf = S.ovf;
    D.leaky = S.leaky;
    S.alloc = -1;
    S.ovf = false;
    S.leaky = false;
    if (real_) {
      startFaults(op);
      delete D.doc;
      D.doc = nullptr;
      if (!sharedBefore && oldAlloc >= 0)
        allocs_[size_t(oldAlloc)]->expectEmpty("C06:leak-at-destruction", "after ~JsonDocument()");
      D.doc = new JsonDocument(std::move(*S.doc));
      expectAllocator(D, "after move-construction");
      expectAllocator(S, "after move-construction (source)");
    }
  } else if (what == "new") {  // destroy d and create a fresh document on its home allocator
    int oldAlloc = D.alloc;
    D.model.clearTo(K::Null);
    dropDocRefs(d);
    D.alloc = opt.useDefaultAlloc ? -1 : opt.shareAlloc ? 0 : d;
    D.ovf = false;
    if (real_) {
      startFaults(op);
      delete D.doc;
      D.doc = nullptr;
      if (!sharedBefore && oldAlloc >= 0)
        allocs_[size_t(oldAlloc)]->expectEmpty("C06:leak-at-destruction", "after ~JsonDocument()");
      D.doc = D.alloc < 0 ? new JsonDocument() : new JsonDocument(allocs_[size_t(D.alloc)].get());
      D.leaky = false;
    }
  } else if (what == "fromv") {  // destroy d, construct it from a reference into another document
    Ref* src = resolve(op, "src");
    if (src->doc == d) {
      lastSkip = "own-value";
      return;
    }
    Val srcCopy = *findNode(src->doc, src->node);
    int oldAlloc = D.alloc;
    assignContent(D.model, srcCopy);
    dropDocRefs(d);
    D.alloc = opt.useDefaultAlloc ? -1 : opt.shareAlloc ? 0 : d;
    D.ovf = false;
    j.voidConverter = true;
    if (real_) {
      startFaults(op);
      delete D.doc;
      D.doc = nullptr;
      if (!sharedBefore && oldAlloc >= 0)
        allocs_[size_t(oldAlloc)]->expectEmpty("C06:leak-at-destruction", "after ~JsonDocument()");
      Allocator* al = D.alloc < 0 ? detail::DefaultAllocator::instance() : allocs_[size_t(D.alloc)].get();
      switch (src->root ? 'v' : src->view) {
        case 'a':
          D.doc = op.num("via") ? new JsonDocument(JsonArrayConst(src->a), al) : new JsonDocument(src->a, al);
          break;
        case 'o':
          D.doc = op.num("via") ? new JsonDocument(JsonObjectConst(src->o), al) : new JsonDocument(src->o, al);
          break;
        case 'c':
          D.doc = new JsonDocument(src->c, al);
          break;
        default:
          D.doc = op.num("via") ? new JsonDocument(realConst(*src), al) : new JsonDocument(realVariant(*src), al);
      }
      D.leaky = false;
      expectAllocator(D, "after construction from a value");
    }
  } else if (what == "set") {  // d.set(reference)  /  d = reference
    Ref* src = resolve(op, "src");
    if (src->doc == d) {
      std::string sig = src->root ? "docset:self" : "docset:own-descendant";
      count(("alias." + sig).c_str());
      if (opt.skipKnown && opt.known.count(sig)) {
        lastSkip = "known:" + sig;
        return;
      }
    }
    Val srcCopy = *findNode(src->doc, src->node);
    j.hasReturn = true;
    assignContent(D.model, srcCopy);
    dropDocRefs(d);
    D.ovf = false;
    j.voidConverter = true;
    if (real_) {
      startFaults(op);
      bool assign = op.num("via") == 1;
      if (assign)
        j.hasReturn = false;
      D.leaky = false;
      switch (src->root ? 'v' : src->view) {
        case 'a':
          if (assign)
            *D.doc = src->a;
          else
            j.actual = D.doc->set(src->a);
          break;
        case 'o':
          if (assign)
            *D.doc = src->o;
          else
            j.actual = D.doc->set(src->o);
          break;
        case 'c':
          if (assign)
            *D.doc = src->c;
          else
            j.actual = D.doc->set(src->c);
          break;
        default:
          if (src->root && src->doc != d && !assign)
            j.actual = D.doc->set(*docs_[size_t(src->doc)].doc);
          else if (assign)
            *D.doc = realConst(*src);
          else
            j.actual = D.doc->set(realVariant(*src));
      }
    }
  } else {
    throw HarnessError("unknown document op " + what);
  }
  endOp(j, op, ix);
}

}  // namespace hist
}  // namespace sim
