// `sink` scenario family: a document travels *out* of the library through every kind of
// destination, at every buffer capacity 0..len+2 and with short-write faults. Judges the
// bytes offered to / accepted by the sink, the returned count, measure*(), guard bytes.
#include <ostream>
#include <sstream>
#include <streambuf>

#include "aj.hpp"
#include "refjson.hpp"
#include "refmsgpack.hpp"
#include "simalloc.hpp"
#include "walk.hpp"

namespace sim {
namespace sink {

using namespace ArduinoJson;

namespace {

// ---- simulated destinations
struct SinkLog {
  std::string offered;   // every byte the library tried to write
  std::string accepted;  // what the sink took
  uint64_t calls = 0;
};

class SimWriter {  // custom writer (duck-typed)
 public:
  SimWriter(SinkLog& log, size_t acceptLimit) : log_(log), limit_(acceptLimit) {}
  size_t write(uint8_t c) {
    log_.calls++;
    log_.offered += char(c);
    if (log_.accepted.size() >= limit_)
      return 0;
    log_.accepted += char(c);
    return 1;
  }
  size_t write(const uint8_t* s, size_t n) {
    log_.calls++;
    log_.offered.append(reinterpret_cast<const char*>(s), n);
    size_t room = limit_ > log_.accepted.size() ? limit_ - log_.accepted.size() : 0;
    size_t k = n < room ? n : room;
    log_.accepted.append(reinterpret_cast<const char*>(s), k);
    return k;
  }

 private:
  SinkLog& log_;
  size_t limit_;
};

class SimPrint : public Print {
 public:
  SimPrint(SinkLog& log, size_t acceptLimit) : w_(log, acceptLimit) {}
  size_t write(uint8_t c) override {
    return w_.write(c);
  }
  size_t write(const uint8_t* s, size_t n) override {
    return w_.write(s, n);
  }

 private:
  SimWriter w_;
};

class SinkStreambuf : public std::streambuf {
 public:
  explicit SinkStreambuf(SinkLog& log) : log_(log) {}

 protected:
  int_type overflow(int_type c) override {
    log_.calls++;
    if (c != traits_type::eof()) {
      log_.offered += char(c);
      log_.accepted += char(c);
    }
    return c;
  }
  std::streamsize xsputn(const char* s, std::streamsize n) override {
    log_.calls++;
    log_.offered.append(s, size_t(n));
    log_.accepted.append(s, size_t(n));
    return n;
  }

 private:
  SinkLog& log_;
};

// ---- building the document through the API
void build(JsonVariant dst, const Val& v) {
  switch (v.k) {
    case K::Null:
      dst.set(nullptr);
      break;
    case K::Bool:
      dst.set(v.b);
      break;
    case K::Int:
      dst.set(v.i);
      break;
    case K::UInt:
      dst.set(v.u);
      break;
    case K::Float:
      dst.set(v.f);
      break;
    case K::Double:
      dst.set(v.d);
      break;
    case K::Str:
      if (v.linked && v.s.find('\0') == std::string::npos)
        dst.set(v.s.c_str());  // the model value outlives the document
      else
        dst.set(v.s);
      break;
    case K::Raw: {
      std::string payload;
      int8_t type = 0;
      if (asBin(v.s, payload))
        dst.set(MsgPackBinary(payload.data(), payload.size()));
      else if (asExt(v.s, type, payload))
        dst.set(MsgPackExtension(type, payload.data(), payload.size()));
      else
        dst.set(serialized(v.s.data(), v.s.size()));
      break;
    }
    case K::Arr: {
      JsonArray a = dst.to<JsonArray>();
      for (auto& e : v.a)
        build(a.add<JsonVariant>(), e);
      break;
    }
    case K::Obj: {
      JsonObject o = dst.to<JsonObject>();
      for (auto& m : v.o) {
        JsonString key(m.first.data(), m.first.size(), JsonString::Copied);
        build(o[key].to<JsonVariant>(), m.second);
      }
      break;
    }
  }
}

enum Fmt { Json, Pretty, MsgPack };

template <typename TDst>
size_t ser(Fmt f, JsonVariantConst src, TDst& dst) {
  return f == Json ? serializeJson(src, dst) : f == Pretty ? serializeJsonPretty(src, dst) : serializeMsgPack(src, dst);
}
size_t serBuf(Fmt f, JsonVariantConst src, void* p, size_t n) {
  return f == Json ? serializeJson(src, p, n) : f == Pretty ? serializeJsonPretty(src, p, n) : serializeMsgPack(src, p, n);
}
size_t measure(Fmt f, JsonVariantConst src) {
  return f == Json ? measureJson(src) : f == Pretty ? measureJsonPretty(src) : measureMsgPack(src);
}

const char* prop(Fmt f) {
  return f == MsgPack ? "C08" : "C02";
}

std::string stripWs(const std::string& t) {
  std::string o;
  bool in = false;
  for (size_t j = 0; j < t.size(); j++) {
    char c = t[j];
    if (in) {
      o += c;
      if (c == '\\' && j + 1 < t.size())
        o += t[++j];
      else if (c == '"')
        in = false;
    } else if (c == '"') {
      in = true;
      o += c;
    } else if (c != ' ' && c != '\n' && c != '\r' && c != '\t') {
      o += c;
    }
  }
  return o;
}

// bit-exact comparison for MessagePack (C08): floats keep their bits unless integral
bool mpEqual(const Val& m, const Val& d, std::string& why, const std::string& path = "$") {
  auto say = [&](const std::string& s) {
    why = path + ": " + s + " (" + toText(m).substr(0, 60) + " vs " + toText(d).substr(0, 60) + ")";
    return false;
  };
  if (m.k == K::Float || m.k == K::Double) {
    double x = m.asDouble();
    if (d.k == m.k)
      return sameValue(m, d) || say("float bits differ");
    if (d.k == K::Int || d.k == K::UInt) {
      double y = d.asDouble();
      if (x == y && x == double((long long)x))
        return true;
      if (x == y && x >= 0 && x == double((unsigned long long)x))
        return true;
      return say("integer encoding of a different value");
    }
    return say("float encoded as another kind");
  }
  if (m.k != d.k)
    return say("kind differs");
  if (m.k == K::Arr) {
    if (m.a.size() != d.a.size())
      return say("array size");
    for (size_t j = 0; j < m.a.size(); j++)
      if (!mpEqual(m.a[j], d.a[j], why, path + "[" + std::to_string(j) + "]"))
        return false;
    return true;
  }
  if (m.k == K::Obj) {
    if (m.o.size() != d.o.size())
      return say("map size");
    for (size_t j = 0; j < m.o.size(); j++) {
      if (m.o[j].first != d.o[j].first)
        return say("key differs");
      if (!mpEqual(m.o[j].second, d.o[j].second, why, path + "." + quote(m.o[j].first)))
        return false;
    }
    return true;
  }
  return sameValue(m, d) || say("value differs");
}

struct Canary {
  static constexpr size_t G = 32;
  char* block;
  size_t cap;
  explicit Canary(size_t c) : cap(c) {
    block = static_cast<char*>(malloc(cap + 2 * G));
    memset(block, 0xCD, cap + 2 * G);
  }
  ~Canary() {
    free(block);
  }
  char* buf() {
    return block + G;
  }
  bool guardsIntact() const {
    for (size_t j = 0; j < G; j++)
      if ((unsigned char)block[j] != 0xCD || (unsigned char)block[G + cap + j] != 0xCD)
        return false;
    return true;
  }
};

template <size_t N>
void arrayForm(Fmt f, JsonVariantConst src, const std::string& T, const std::string& cls) {
  struct {
    char before[16];
    char buf[N];
    char after[16];
  } s;
  memset(&s, 0xCD, sizeof s);
  size_t n = ser(f, src, s.buf);
  size_t want = T.size() < N ? T.size() : N;
  if (n != want || memcmp(s.buf, T.data(), want) != 0)
    violate(cls + ":buffer-prefix", "char[" + std::to_string(N) + "]: returned " + std::to_string(n) + ", expected " +
                                        std::to_string(want) + " bytes of the text");
  for (size_t j = 0; j < 16; j++)
    if ((unsigned char)s.before[j] != 0xCD || (unsigned char)s.after[j] != 0xCD)
      violate(cls + ":buffer-overrun", "char[" + std::to_string(N) + "]: a byte outside the buffer was written");
  if (f != MsgPack) {
    if (T.size() < N && s.buf[T.size()] != 0)
      violate(cls + ":terminator", "char[N]: no terminator although the text is shorter than the buffer");
    for (size_t j = T.size() + 1; j < N; j++)
      if ((unsigned char)s.buf[j] != 0xCD)
        violate(cls + ":buffer-overrun", "char[N]: bytes beyond the terminator were written");
  }
  count("sink.array_forms");
}

void runSer(const Op& op, Transcript& t) {
  Val v = parseText(op.str("v"));
  normalise(v, kUseDouble);
  std::string fs = op.str("fmt", "json");
  Fmt f = fs == "mp" ? MsgPack : fs == "pretty" ? Pretty : Json;
  std::string cls = prop(f);
  SimAllocator alloc(3, nullptr);
  {
    JsonDocument doc(&alloc);
    if (op.num("viamp")) {
      // a document obtained by deserialization rather than through the API
      RefMsgPackEncoder e;
      std::string bytes = e.encode(v);
      auto err = deserializeMsgPack(doc, bytes.data(), bytes.size(), DeserializationOption::NestingLimit(255));
      if (err == DeserializationError::NoMemory) {
        count("sink.skipped_document_too_large_for_build");
        return;  // this build's slot or length limit cannot hold the document
      }
      if (err != DeserializationError::Ok)
        throw HarnessError(std::string("sink: cannot build the document: ") + err.c_str());
    } else {
      build(doc.to<JsonVariant>(), v);
    }
    if (doc.overflowed()) {
      count("sink.skipped_document_too_large_for_build");
      return;  // this build's slot or length limit cannot hold the document
    }
    JsonVariantConst src = doc.as<JsonVariantConst>();
    uint64_t callsBefore = alloc.calls();

    // 1. the reference text: what an unbounded custom writer accepts
    SinkLog ref;
    SimWriter w(ref, SIZE_MAX);
    size_t n = ser(f, src, w);
    const std::string& T = ref.accepted;
    size_t len = T.size();
    if (n != len || ref.offered != T)
      violate(cls + ":count", "custom writer: returned " + std::to_string(n) + " but " + std::to_string(len) + " bytes were accepted");
    size_t m = measure(f, src);
    if (m != len)
      violate(cls + ":measure", "measure says " + std::to_string(m) + ", the text has " + std::to_string(len) + " bytes");
    t.s(T);
    sketch("states", hashStr(T));

    // 2. the text denotes the document (the pure clause: sampled, not the target)
    if (f == MsgPack) {
      bool jsonRaw = false;
      visitc(v, [&](const Val& x) {
        if (x.k == K::Raw && (x.s.empty() || (unsigned char)x.s[0] < 0x80))
          jsonRaw = true;
      });
      if (!jsonRaw) {
        RefMsgPackDecoder dec(T, kUseDouble);
        auto r = dec.decode();
        if (r.status != MpDecodeResult::Ok || r.consumed != len)
          violate("C08:not-one-object", "output is not exactly one MessagePack object: " + hexdump(T));
        std::string why;
        if (!mpEqual(v, r.value, why))
          violate("C08:wrong-encoding", "the object does not denote the document: " + why + "; bytes " + hexdump(T));
      }
    } else {
      bool rawOk = true, bin = false;
      visitc(v, [&](const Val& x) {
        if (x.k == K::Raw && !x.s.empty() && (unsigned char)x.s[0] >= 0x80)
          bin = true;
      });
      Val image = jsonImage(v, kUseDouble, &rawOk, kNaN, kInf);
      if (rawOk && !bin) {
        RefJsonParser p(T, kUseDouble);
        p.allowNaN = kNaN;
        p.allowInf = kInf;
        auto r = p.parseDocument();
        if (!r.ok)
          violate("C02:not-json", "output rejected by the reference parser (" + r.error + "): " + hexdump(T));
        std::string why;
        if (!looselyEqual(image, r.value, &why))
          violate("C02:wrong-text", "the text does not denote the document: " + why + "; text " + hexdump(T));
        // raw values verbatim
        visitc(v, [&](const Val& x) {
          if (x.k == K::Raw && T.find(x.s) == std::string::npos)
            violate("C02:wrong-text", "a raw value is not written verbatim");
        });
      }
      if (f == Pretty) {
        std::string compact;
        serializeJson(src, compact);
        if (stripWs(T) != stripWs(compact))
          violate("C02:pretty-differs", "pretty and compact output differ in more than insignificant whitespace");
        if (rawOk && !bin && stripWs(compact) != compact) {
          // only raw values or strings may contain whitespace in compact output
          bool hasRaw = false;
          visitc(v, [&](const Val& x) {
            if (x.k == K::Raw)
              hasRaw = true;
          });
          if (!hasRaw)
            violate("C02:pretty-differs", "compact output contains whitespace outside strings");
        }
      }
    }

    // 3. every destination kind, unbounded
    {
      std::string s = "previous";
      size_t r1 = ser(f, src, s);
      if (r1 != len || s != T)
        violate(cls + ":destination", "std::string: returned " + std::to_string(r1) + " / content differs");
      SinkLog lo;
      SinkStreambuf sb(lo);
      std::ostream os(&sb);
      // the state a caller may have left on the stream (a pending field width, a fill character, an adjustment,
      // a number base) is about formatted output: the serializers write bytes
      unsigned osState = unsigned(op.unum("os", 0));
      if (osState) {
        os.width(std::streamsize(1 + osState % 11));
        os.fill(osState & 16 ? '.' : ' ');
        os.setf(osState & 32 ? std::ios::left : std::ios::right, std::ios::adjustfield);
        os.setf(osState & 64 ? std::ios::hex : std::ios::dec, std::ios::basefield);
        if (osState & 128)
          os.setf(std::ios::showbase | std::ios::uppercase | std::ios::showpos);
        count("sink.ostream_with_state");
      }
      size_t r2 = ser(f, src, os);
      if (r2 != len || lo.accepted != T)
        violate(cls + ":destination", "std::ostream: returned " + std::to_string(r2) + " / content differs" +
                                          (osState ? " (stream had formatting state set)" : ""));
      SinkLog lp;
      SimPrint pr(lp, SIZE_MAX);
      size_t r3 = ser(f, src, pr);
      if (r3 != len || lp.accepted != T)
        violate(cls + ":destination", "Print: returned " + std::to_string(r3) + " / content differs");
      if (T.find('\0') == std::string::npos) {  // (an Arduino String ends at the first NUL: MessagePack only when it has none)
        ::String as("junk");
        as.limitCapacityTo(len + 64);
        size_t r4 = ser(f, src, as);
        if (r4 != len || T != as.c_str())
          violate(cls + ":destination", "Arduino String: returned " + std::to_string(r4) + " / content differs");
      }
      count("sink.destinations", 4);
    }

    // 4. bounded buffer, every capacity 0..len+2 (exactly-sized heap block: ASan guards both ends)
    std::string capsSel = op.str("caps", "all");
    size_t capLo = 0, capHi = len + 2;
    if (capsSel != "all" && capsSel != "sample")
      capLo = capHi = size_t(strtoull(capsSel.c_str(), nullptr, 10));
    size_t step = 1;
    if (capsSel == "all" && len > 3000)
      step = 1 + len / 1500;
    if (capsSel == "sample") {
      capLo = 0;
      capHi = len + 2;
      step = 1 + len / 24;  // large documents: the ends densely, the middle sparsely
    }
    for (size_t cap = capLo; cap <= capHi; cap += (cap < (capsSel == "sample" ? 6u : 80u) || cap + (capsSel == "sample" ? 6 : 80) > capHi) ? 1 : step) {
      bool uchar = (cap & 1) != 0;
      {
        char* blk = static_cast<char*>(malloc(cap ? cap : 1));
        memset(blk, 0xCD, cap ? cap : 1);
        size_t r = cap == 0 ? serBuf(f, src, blk + 0, 0)
                   : uchar  ? (f == Json     ? serializeJson(src, reinterpret_cast<unsigned char*>(blk), cap)
                               : f == Pretty ? serializeJsonPretty(src, reinterpret_cast<unsigned char*>(blk), cap)
                                             : serializeMsgPack(src, reinterpret_cast<unsigned char*>(blk), cap))
                            : serBuf(f, src, blk, cap);
        size_t want = len < cap ? len : cap;
        bool bad = r != want || memcmp(blk, T.data(), want) != 0;
        std::string detail;
        if (bad)
          detail = "returned " + std::to_string(r) + ", stored prefix " + (memcmp(blk, T.data(), want) ? "differs" : "matches");
        if (!bad && f != MsgPack) {
          if (len < cap && blk[len] != 0) {
            bad = true;
            detail = "no terminating NUL although length < capacity";
          }
          for (size_t j = len + 1; !bad && j < cap; j++)
            if ((unsigned char)blk[j] != 0xCD) {
              bad = true;
              detail = "byte beyond the terminator written";
            }
        }
        if (!bad && f == MsgPack)
          for (size_t j = len; j < cap; j++)
            if ((unsigned char)blk[j] != 0xCD) {
              bad = true;
              detail = "byte beyond the output written (binary output has no terminator)";
            }
        free(blk);
        if (bad)
          violate(cls + ":buffer-prefix", "buffer of capacity " + std::to_string(cap) + " for a text of " + std::to_string(len) +
                                              " bytes: " + detail);
      }
      {
        // canaries around the buffer (for the bytes ASan's redzone granularity could miss)
        Canary c(cap);
        serBuf(f, src, c.buf(), cap);
        if (!c.guardsIntact())
          violate(cls + ":buffer-overrun", "a byte outside a buffer of capacity " + std::to_string(cap) + " was written");
      }
      count("fault.capacity_positions");
      // 5. the same capacity as a short-write fault of a custom writer / Print
      if (cap <= len) {
        SinkLog lw;
        SimWriter sw(lw, cap);
        size_t r = ser(f, src, sw);
        if (r != cap || lw.accepted != T.substr(0, cap) || lw.offered != T)
          violate(cls + ":short-write", "custom writer accepting " + std::to_string(cap) + " bytes: returned " +
                                            std::to_string(r) + ", offered " + std::to_string(lw.offered.size()) + " of " +
                                            std::to_string(len));
        if ((cap % 3) == 0) {
          SinkLog lp;
          SimPrint sp(lp, cap);
          size_t r2 = ser(f, src, sp);
          if (r2 != cap || lp.accepted != T.substr(0, cap))
            violate(cls + ":short-write", "Print accepting " + std::to_string(cap) + " bytes: returned " + std::to_string(r2));
        }
        count("fault.short_write_positions");
        // Arduino String with a capacity limit: what is stored is a prefix of the text
        if (f != MsgPack && T.find('\0') == std::string::npos && (cap % 5) == 0) {
          ::String as;
          as.limitCapacityTo(cap);
          ser(f, src, as);
          size_t got = as.length();
          if (got > cap || T.compare(0, got, as.c_str()) != 0)
            violate(cls + ":destination", "Arduino String limited to " + std::to_string(cap) + " bytes holds something that is not a prefix of the text");
        }
      }
    }
    // 6. char[N] forms
    arrayForm<1>(f, src, T, cls);
    arrayForm<7>(f, src, T, cls);
    arrayForm<64>(f, src, T, cls);
    arrayForm<300>(f, src, T, cls);
    if (alloc.calls() != callsBefore)
      violate("C06:readonly-allocates", "serialization called the allocator");
    g_stats.maxv("sink.text_length.max", len);
    count("sink.texts");
    count("sink.bytes", len);
  }
  alloc.expectEmpty("C06:leak-at-destruction", "sink scenario");
}

}  // namespace

Outcome execute(const Plan& plan) {
  Outcome out;
  Transcript t;
  g_ledger.reset();
  try {
    for (auto& op : plan.ops) {
      if (op.name() == "ser")
        runSer(op, t);
      else
        throw HarnessError("unknown sink op " + op.name());
    }
  } catch (const Violation& v) {
    out.ok = false;
    out.cls = v.cls;
    out.msg = v.msg;
  }
  out.hash = out.obs = t.h;
  out.steps = t.events;
  return out;
}

Plan generate(const std::string& mode, uint64_t seed, uint64_t run) {
  Rng r(seed);
  Plan p;
  p.head.set("family", "sink").set("mode", mode).setu("seed", seed).setu("run", run);
  bool mp = mode == "mp" || mode == "mpbig";
  bool wantBig = mode == "mpbig" || mode == "jsonbig";
  GenOpts g;
  g.maxDepth = 4;
  g.maxWidth = 5;
  g.maxStr = 50;
  g.allowRaw = !mp;
  g.allowBin = mp;
  g.binEdges = mp;
  g.extremeDoubles = mp;
  g.allowLinked = true;
  g.allowNulInStr = true;
  g.allowNulInKey = true;
  Val v;
  unsigned sel = unsigned(r.below(100));
  bool big = false;
  bool bigThroughApi = false;
  bool deepChain = false;
  if (wantBig) {
    // count and length headers on both sides of 65535/65536
    big = true;
    size_t n = 65534 + size_t(r.below(4));
    // the shape is a function of the run number, so that every batch of eight consecutive runs holds all of them.
    // (An object of 65 535 members costs the library itself close to a minute under the sanitizers - every key is
    // looked up among all copied strings before it is stored - so it gets one run in eight.)
    static const unsigned shapeOfRun[8] = {0, 1, 2, 3, 0, 2, 3, 2};
    unsigned what = shapeOfRun[run % 8];
    if (what == 3 && !mp)
      what = 0;
    if (what == 3) {
      // bin 32 / ext 32 handed over through MsgPackBinary / MsgPackExtension: every byte of the 4-byte length
      // field takes a non-zero value somewhere in this list (only builds with 4-byte string lengths can hold them)
      static const size_t sizes[] = {65535, 65536, 65537, 65791, 65792, 65836, 70000, 131072, 144470};
      size_t m = sizes[r.below(9)];
      std::string payload(m, '\0');
      for (size_t j = 0; j < m; j++)
        payload[j] = char((j * 131 + (j >> 8)) & 0xFF);
      std::string raw;
      bool ext = r.chance(1, 2);
      raw += char(ext ? 0xc9 : 0xc6);
      raw += char((m >> 24) & 0xFF);
      raw += char((m >> 16) & 0xFF);
      raw += char((m >> 8) & 0xFF);
      raw += char(m & 0xFF);
      if (ext)
        raw += char(r.below(256));
      raw += payload;
      v = Val::arr();
      v.a.push_back(Val::integer(1));
      v.a.push_back(Val::raw(raw));
      v.a.push_back(Val::integer(2));
      bigThroughApi = true;
    } else if (what == 0) {
      v = Val::arr();
      for (size_t j = 0; j < n; j++)
        v.a.push_back(Val::integer(int64_t(j & 0x7F)));
    } else if (what == 1) {
      v = Val::obj();
      for (size_t j = 0; j < n; j++)
        v.o.emplace_back(std::to_string(j), Val::integer(int64_t(j & 0x7F)));
    } else {
      std::string str(n, 'x');
      for (size_t j = 0; j < n; j += 101)
        str[j] = char('a' + (j / 101) % 26);
      v = Val::arr();
      v.a.push_back(Val::str(str));
    }
  } else if (r.chance(1, 12)) {
    // depth instead of width: a chain of 100-254 nested arrays / objects (the pretty serializer indents by level)
    size_t depth = size_t(r.range(100, 254));
    if (r.chance(1, 3)) {
      static const size_t edges[] = {126, 127, 128, 129, 254};
      depth = edges[r.below(5)];
    }
    v = r.chance(1, 2) ? Val::str("leaf") : Val::integer(7);
    for (size_t j = 0; j < depth; j++) {
      Val w;
      if (r.chance(1, 2)) {
        w = Val::arr();
        if (r.chance(1, 4))
          w.a.push_back(Val::boolean(true));
        w.a.push_back(v);
      } else {
        w = Val::obj();
        w.o.emplace_back(r.chance(1, 2) ? "k" : "", v);
      }
      v = w;
    }
    deepChain = true;
  } else if (sel < 55) {
    v = genValue(r, g);
  } else if (sel < 70) {
    // sizes concentrated on header-width boundaries
    static const size_t edges[] = {0, 1, 15, 16, 17, 31, 32, 33, 255, 256, 257};
    size_t n = edges[r.below(11)];
    if (r.chance(1, 2)) {
      v = Val::arr();
      for (size_t j = 0; j < n; j++)
        v.a.push_back(r.chance(1, 8) ? genScalar(r, g) : Val::integer(int64_t(j)));
    } else if (r.chance(1, 2)) {
      v = Val::obj();
      for (size_t j = 0; j < n; j++)
        v.o.emplace_back("k" + std::to_string(j), Val::integer(int64_t(j)));
    } else {
      std::string s(n, 'x');
      for (size_t j = 0; j < n; j++)
        s[j] = char(r.below(256));
      v = Val::str(s);
    }
  } else if (sel < 85) {
    // magnitudes on every integer header boundary, both signs
    v = Val::arr();
    static const int bits[] = {5, 7, 8, 15, 16, 31, 32, 53, 63, 64};
    for (int q = 0; q < 6; q++) {
      int b = bits[r.below(10)];
      uint64_t base = b == 64 ? 0 : (1ull << b);
      uint64_t x = base + uint64_t(r.range(-2, 2));
      if (r.chance(1, 2))
        v.a.push_back(Val::uinteger(x));
      else
        v.a.push_back(Val::integer(int64_t(0 - x)));
      if (r.chance(1, 3))
        v.a.push_back(Val::dbl(double(int64_t(x)) + (r.chance(1, 2) ? 0.0 : 0.5)));
      if (r.chance(1, 4))
        v.a.push_back(Val::flt(float(ldexp(1.0, int(r.below(40))))));
    }
  } else {
    // every byte value inside strings and keys
    v = Val::obj();
    std::string all;
    size_t from = size_t(r.below(256));
    for (size_t j = 0; j < 40; j++)
      all += char((from + j) & 0xFF);
    v.o.emplace_back(all, Val::str(all));
    v.o.emplace_back("", Val::arr());
    v.o.emplace_back("e", Val::obj());
  }
  Op op = mkop("ser");
  static const char* fm[] = {"json", "pretty"};
  op.set("fmt", mp ? "mp" : fm[r.below(2)]).set("v", toText(v)).set("caps", big || deepChain ? "sample" : "all");
  if (r.chance(1, 3))
    op.setu("os", 1 + r.below(255));  // formatting state left on the std::ostream destination
  if (big && !bigThroughApi)
    op.set("viamp", 1);  // built by the MessagePack deserializer: member insertion through the API is quadratic
  if (!big && r.chance(1, 4)) {
    bool raw = false;
    visitc(v, [&](const Val& x) {
      if (x.k == K::Raw || (x.k == K::Str && x.linked))
        raw = true;
    });
    if (!raw)
      op.set("viamp", 1);
  }
  p.ops.push_back(op);
  return p;
}

}  // namespace sink
}  // namespace sim
