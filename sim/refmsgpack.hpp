// Independent MessagePack encoder (with seeded, legal, possibly non-minimal widths)
// and decoder. Shares no code with ArduinoJson.
#pragma once
#include "value.hpp"

namespace sim {

struct MpEncodeOpts {
  Rng* rng = nullptr;   // null: minimal widths
  bool nonMinimal = false;
};

class RefMsgPackEncoder {
 public:
  explicit RefMsgPackEncoder(MpEncodeOpts o = MpEncodeOpts()) : o_(o) {}

  std::string encode(const Val& v) {
    out_.clear();
    value(v);
    return out_;
  }

 private:
  void be(uint64_t x, int bytes) {
    for (int j = bytes - 1; j >= 0; j--)
      out_ += char((x >> (8 * j)) & 0xFF);
  }
  // index of the minimal class, optionally bumped to a wider legal one
  int widen(int minimal, int classes) {
    if (!o_.nonMinimal || !o_.rng || !o_.rng->chance(1, 3))
      return minimal;
    return minimal + int(o_.rng->below(uint64_t(classes - minimal)));
  }
  void uintv(uint64_t u) {
    int m = u <= 0x7F ? 0 : u <= 0xFF ? 1 : u <= 0xFFFF ? 2 : u <= 0xFFFFFFFFull ? 3 : 4;
    int c = widen(m, 5);
    switch (c) {
      case 0:
        out_ += char(u);
        break;
      case 1:
        out_ += char(0xCC);
        be(u, 1);
        break;
      case 2:
        out_ += char(0xCD);
        be(u, 2);
        break;
      case 3:
        out_ += char(0xCE);
        be(u, 4);
        break;
      default:
        out_ += char(0xCF);
        be(u, 8);
        break;
    }
  }
  void intv(int64_t i) {
    // negative values only
    int m = i >= -32 ? 0 : i >= -128 ? 1 : i >= -32768 ? 2 : i >= -2147483648LL ? 3 : 4;
    int c = widen(m, 5);
    switch (c) {
      case 0:
        out_ += char(uint8_t(i));
        break;
      case 1:
        out_ += char(0xD0);
        be(uint64_t(i), 1);
        break;
      case 2:
        out_ += char(0xD1);
        be(uint64_t(i), 2);
        break;
      case 3:
        out_ += char(0xD2);
        be(uint64_t(i), 4);
        break;
      default:
        out_ += char(0xD3);
        be(uint64_t(i), 8);
        break;
    }
  }
  void strv(const std::string& s) {
    size_t n = s.size();
    int m = n <= 31 ? 0 : n <= 0xFF ? 1 : n <= 0xFFFF ? 2 : 3;
    int c = widen(m, 4);
    switch (c) {
      case 0:
        out_ += char(0xA0 | n);
        break;
      case 1:
        out_ += char(0xD9);
        be(n, 1);
        break;
      case 2:
        out_ += char(0xDA);
        be(n, 2);
        break;
      default:
        out_ += char(0xDB);
        be(n, 4);
        break;
    }
    out_ += s;
  }
  void value(const Val& v) {
    switch (v.k) {
      case K::Null:
        out_ += char(0xC0);
        break;
      case K::Bool:
        out_ += char(v.b ? 0xC3 : 0xC2);
        break;
      case K::UInt:
        // a non-negative value may also travel in a signed family when it fits
        if (o_.nonMinimal && o_.rng && v.u <= 0x7FFFFFFFFFFFFFFFull && o_.rng->chance(1, 5)) {
          int m = v.u <= 0x7F ? 1 : v.u <= 0x7FFF ? 2 : v.u <= 0x7FFFFFFF ? 3 : 4;
          int c = widen(m, 5);
          static const int bytes[] = {0, 1, 2, 4, 8};
          out_ += char(0xD0 + c - 1);
          be(v.u, bytes[c]);
        } else {
          uintv(v.u);
        }
        break;
      case K::Int:
        intv(v.i);
        break;
      case K::Float: {
        if (o_.nonMinimal && o_.rng && o_.rng->chance(1, 4)) {
          out_ += char(0xCB);
          be(doubleBits(double(v.f)), 8);
        } else {
          out_ += char(0xCA);
          be(floatBits(v.f), 4);
        }
        break;
      }
      case K::Double:
        out_ += char(0xCB);
        be(doubleBits(v.d), 8);
        break;
      case K::Str:
        strv(v.s);
        break;
      case K::Raw:
        out_ += v.s;  // already a MessagePack object (bin/ext)
        break;
      case K::Arr: {
        size_t n = v.a.size();
        int m = n <= 15 ? 0 : n <= 0xFFFF ? 1 : 2;
        int c = widen(m, 3);
        if (c == 0)
          out_ += char(0x90 | n);
        else if (c == 1) {
          out_ += char(0xDC);
          be(n, 2);
        } else {
          out_ += char(0xDD);
          be(n, 4);
        }
        for (auto& e : v.a)
          value(e);
        break;
      }
      case K::Obj: {
        size_t n = v.o.size();
        int m = n <= 15 ? 0 : n <= 0xFFFF ? 1 : 2;
        int c = widen(m, 3);
        if (c == 0)
          out_ += char(0x80 | n);
        else if (c == 1) {
          out_ += char(0xDE);
          be(n, 2);
        } else {
          out_ += char(0xDF);
          be(n, 4);
        }
        for (auto& e : v.o) {
          strv(e.first);
          value(e.second);
        }
        break;
      }
    }
  }

  MpEncodeOpts o_;
  std::string out_;
};

struct MpDecodeResult {
  enum Status { Ok, Incomplete, Invalid, Empty } status = Empty;
  size_t consumed = 0;
  Val value;
  size_t maxDepth = 0;
};

// Decodes one object. Integers that do not fit 64 bits cannot occur. Map keys must be
// strings (anything else: Invalid), 0xC1: Invalid. bin/ext objects are kept verbatim as
// Raw. `useDouble=false` rounds float64 to float32.
class RefMsgPackDecoder {
 public:
  RefMsgPackDecoder(const std::string& bytes, bool useDouble = true, size_t maxNodes = 2000000)
      : s_(bytes), useDouble_(useDouble), budget_(maxNodes) {}

  MpDecodeResult decode() {
    MpDecodeResult r;
    if (s_.empty()) {
      r.status = MpDecodeResult::Empty;
      return r;
    }
    try {
      r.value = value(1);
      r.status = MpDecodeResult::Ok;
    } catch (MpDecodeResult::Status st) {
      r.status = st;
    }
    r.consumed = p_;
    r.maxDepth = maxDepth_;
    return r;
  }

 private:
  uint64_t be(int bytes) {
    if (p_ + size_t(bytes) > s_.size()) {
      p_ = s_.size();
      throw MpDecodeResult::Incomplete;
    }
    uint64_t x = 0;
    for (int j = 0; j < bytes; j++)
      x = (x << 8) | (unsigned char)s_[p_++];
    return x;
  }
  std::string bytes(size_t n) {
    if (n > s_.size() - p_) {
      p_ = s_.size();
      throw MpDecodeResult::Incomplete;
    }
    std::string o = s_.substr(p_, n);
    p_ += n;
    return o;
  }
  std::string key() {
    unsigned c = unsigned(be(1));
    if ((c & 0xE0) == 0xA0)
      return bytes(c & 0x1F);
    if (c == 0xD9)
      return bytes(size_t(be(1)));
    if (c == 0xDA)
      return bytes(size_t(be(2)));
    if (c == 0xDB)
      return bytes(size_t(be(4)));
    throw MpDecodeResult::Invalid;
  }
  Val rawFrom(size_t start, size_t payload) {
    bytes(payload);
    return Val::raw(s_.substr(start, p_ - start));
  }
  Val value(size_t depth) {
    if (budget_-- == 0)
      throw MpDecodeResult::Invalid;
    size_t start = p_;
    unsigned c = unsigned(be(1));
    if (c <= 0x7F)
      return Val::uinteger(c);
    if (c >= 0xE0)
      return Val::integer(int8_t(c));
    if ((c & 0xE0) == 0xA0)
      return Val::str(bytes(c & 0x1F));
    if ((c & 0xF0) == 0x90)
      return array(c & 0x0F, depth);
    if ((c & 0xF0) == 0x80)
      return map(c & 0x0F, depth);
    switch (c) {
      case 0xC0:
        return Val::null();
      case 0xC1:
        throw MpDecodeResult::Invalid;
      case 0xC2:
        return Val::boolean(false);
      case 0xC3:
        return Val::boolean(true);
      case 0xC4:
        return rawFrom(start, size_t(be(1)));
      case 0xC5:
        return rawFrom(start, size_t(be(2)));
      case 0xC6:
        return rawFrom(start, size_t(be(4)));
      case 0xC7:
        return rawFrom(start, size_t(be(1)) + 1);
      case 0xC8:
        return rawFrom(start, size_t(be(2)) + 1);
      case 0xC9:
        return rawFrom(start, size_t(be(4)) + 1);
      case 0xCA:
        return Val::flt(bitsFloat(uint32_t(be(4))));
      case 0xCB:
        return Val::dbl(bitsDouble(be(8)), useDouble_);
      case 0xCC:
        return Val::uinteger(be(1));
      case 0xCD:
        return Val::uinteger(be(2));
      case 0xCE:
        return Val::uinteger(be(4));
      case 0xCF:
        return Val::uinteger(be(8));
      case 0xD0:
        return Val::integer(int8_t(be(1)));
      case 0xD1:
        return Val::integer(int16_t(be(2)));
      case 0xD2:
        return Val::integer(int32_t(be(4)));
      case 0xD3:
        return Val::integer(int64_t(be(8)));
      case 0xD4:
        return rawFrom(start, 2);
      case 0xD5:
        return rawFrom(start, 3);
      case 0xD6:
        return rawFrom(start, 5);
      case 0xD7:
        return rawFrom(start, 9);
      case 0xD8:
        return rawFrom(start, 17);
      case 0xD9:
        return Val::str(bytes(size_t(be(1))));
      case 0xDA:
        return Val::str(bytes(size_t(be(2))));
      case 0xDB:
        return Val::str(bytes(size_t(be(4))));
      case 0xDC:
        return array(size_t(be(2)), depth);
      case 0xDD:
        return array(size_t(be(4)), depth);
      case 0xDE:
        return map(size_t(be(2)), depth);
      case 0xDF:
        return map(size_t(be(4)), depth);
    }
    throw MpDecodeResult::Invalid;
  }
  Val array(size_t n, size_t depth) {
    if (depth > maxDepth_)
      maxDepth_ = depth;
    if (depth > 300)
      throw MpDecodeResult::Invalid;
    Val v = Val::arr();
    for (size_t j = 0; j < n; j++)
      v.a.push_back(value(depth + 1));
    return v;
  }
  Val map(size_t n, size_t depth) {
    if (depth > maxDepth_)
      maxDepth_ = depth;
    if (depth > 300)
      throw MpDecodeResult::Invalid;
    Val v = Val::obj();
    for (size_t j = 0; j < n; j++) {
      std::string k = key();
      v.o.emplace_back(k, value(depth + 1));  // duplicates are kept, in order
    }
    return v;
  }

  const std::string& s_;
  size_t p_ = 0;
  bool useDouble_;
  size_t budget_;
  size_t maxDepth_ = 0;
};

}  // namespace sim
