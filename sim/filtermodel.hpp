// Model of DeserializationOption::Filter: what a filter document keeps (C11).
#pragma once
#include "value.hpp"

namespace sim {

// ----------------------------------------------------------------- filter projection (C11)
inline bool truthy(const Val& f) {
  switch (f.k) {
    case K::Null:
      return false;
    case K::Bool:
      return f.b;
    case K::Int:
      return f.i != 0;
    case K::UInt:
      return f.u != 0;
    case K::Float:
      return f.f != 0;
    case K::Double:
      return f.d != 0;
    default:
      return true;
  }
}
inline bool isTrue(const Val& f) {  // `variant == true`: boolean true or a number equal to 1
  if (f.k == K::Bool)
    return f.b;
  if (f.isNum())
    return f.asDouble() == 1.0;
  return false;
}
inline Val elementFilter(const Val& f) {
  if (isTrue(f))
    return f;
  if (f.k == K::Arr && !f.a.empty() && f.a[0].k != K::Null)
    return f.a[0];
  if (f.k == K::Obj)
    if (const Val* w = f.member("*"))
      return *w;
  return Val::null();
}
inline Val memberFilter(const Val& f, const std::string& key) {
  if (isTrue(f))
    return f;
  if (f.k == K::Obj) {
    const Val* m = f.member(key);
    if (m && m->k != K::Null)
      return *m;
    if (const Val* w = f.member("*"))
      return *w;
  }
  return Val::null();
}
inline Val project(const Val& v, const Val& f) {
  if (isTrue(f))
    return v;
  if (v.k == K::Arr) {
    if (f.k != K::Arr)
      return Val::null();
    Val ef = elementFilter(f);
    Val r = Val::arr();
    if (truthy(ef))
      for (auto& e : v.a)
        r.a.push_back(project(e, ef));
    return r;
  }
  if (v.k == K::Obj) {
    if (f.k != K::Obj)
      return Val::null();
    Val r = Val::obj();
    for (auto& m : v.o) {
      Val mf = memberFilter(f, m.first);
      if (truthy(mf))
        r.o.emplace_back(m.first, project(m.second, mf));
    }
    return r;
  }
  return Val::null();  // a scalar is kept only by `true`
}


}  // namespace sim
