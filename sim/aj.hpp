// The library under test, from /repo's working tree, with the repo's own Arduino mocks.
#pragma once
#include <Arduino.h>  // /repo/extras/tests/Helpers/Arduino.h (String, Stream, Print, Printable, flash)

#ifndef ARDUINOJSON_ENABLE_PROGMEM
#  define ARDUINOJSON_ENABLE_PROGMEM 1
#endif
#ifndef ARDUINOJSON_ENABLE_ARDUINO_STRING
#  define ARDUINOJSON_ENABLE_ARDUINO_STRING 1
#endif
#ifndef ARDUINOJSON_ENABLE_ARDUINO_STREAM
#  define ARDUINOJSON_ENABLE_ARDUINO_STREAM 1
#endif
#ifndef ARDUINOJSON_ENABLE_ARDUINO_PRINT
#  define ARDUINOJSON_ENABLE_ARDUINO_PRINT 1
#endif

#include <ArduinoJson.h>

namespace sim {
constexpr bool kUseDouble = ARDUINOJSON_USE_DOUBLE != 0;
constexpr bool kNaN = ARDUINOJSON_ENABLE_NAN != 0;
constexpr bool kInf = ARDUINOJSON_ENABLE_INFINITY != 0;
constexpr bool kComments = ARDUINOJSON_ENABLE_COMMENTS != 0;
constexpr bool kDecodeUnicode = ARDUINOJSON_DECODE_UNICODE != 0;
}  // namespace sim
