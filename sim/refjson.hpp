// Independent strict RFC 8259 parser and a JSON writer with seeded spelling choices.
// Shares no code with ArduinoJson.
#pragma once
#include "value.hpp"

namespace sim {

struct JsonParseResult {
  bool ok = false;
  std::string error;
  size_t consumed = 0;  // bytes of the value itself plus leading whitespace
  Val value;
};

class RefJsonParser {
 public:
  explicit RefJsonParser(const std::string& text, bool useDouble = true) : s_(text), useDouble_(useDouble) {}
  // dialect extensions of the library, off by default (RFC 8259 only)
  bool allowNaN = false, allowInf = false;
  bool allowPlus = false;  // a leading plus sign (one of the lenient spellings of the library's dialect)

  // parses exactly one value; trailing whitespace allowed, anything else is an error
  JsonParseResult parseDocument() {
    JsonParseResult r;
    try {
      ws();
      r.value = value(0);
      r.consumed = p_;
      ws();
      if (p_ != s_.size())
        fail("trailing bytes");
      r.ok = true;
    } catch (const std::string& e) {
      r.error = e + " at " + std::to_string(p_);
    }
    return r;
  }

  // parses one value and reports where it ended (for streams of documents)
  JsonParseResult parsePrefix() {
    JsonParseResult r;
    try {
      ws();
      r.value = value(0);
      r.consumed = p_;
      r.ok = true;
    } catch (const std::string& e) {
      r.error = e + " at " + std::to_string(p_);
    }
    return r;
  }

 private:
  [[noreturn]] void fail(const char* m) {
    throw std::string(m);
  }
  void ws() {
    while (p_ < s_.size() && (s_[p_] == ' ' || s_[p_] == '\t' || s_[p_] == '\n' || s_[p_] == '\r'))
      p_++;
  }
  int peek() {
    return p_ < s_.size() ? (unsigned char)s_[p_] : -1;
  }
  Val value(int depth) {
    if (depth > 400)
      fail("too deep");
    int c = peek();
    if (c == '{')
      return object(depth);
    if (c == '[')
      return array(depth);
    if (c == '"')
      return Val::str(string());
    if (c == 't')
      return kw("true", Val::boolean(true));
    if (c == 'f')
      return kw("false", Val::boolean(false));
    if (c == 'n')
      return kw("null", Val::null());
    if (allowNaN && c == 'N')
      return kw("NaN", Val::flt(NAN));
    if (allowInf && c == 'I')
      return kw("Infinity", Val::flt(INFINITY));
    if (allowInf && c == '-' && p_ + 1 < s_.size() && s_[p_ + 1] == 'I') {
      p_++;
      return kw("Infinity", Val::flt(-INFINITY));
    }
    if (c == '-' || (c >= '0' && c <= '9') || (allowPlus && c == '+'))
      return number();
    fail("unexpected byte");
  }
  Val kw(const char* w, Val v) {
    size_t n = strlen(w);
    if (s_.compare(p_, n, w) != 0)
      fail("bad keyword");
    p_ += n;
    return v;
  }
  Val array(int depth) {
    p_++;
    Val v = Val::arr();
    ws();
    if (peek() == ']') {
      p_++;
      return v;
    }
    for (;;) {
      ws();
      v.a.push_back(value(depth + 1));
      ws();
      if (peek() == ',') {
        p_++;
        continue;
      }
      if (peek() == ']') {
        p_++;
        return v;
      }
      fail("expected , or ]");
    }
  }
  Val object(int depth) {
    p_++;
    Val v = Val::obj();
    ws();
    if (peek() == '}') {
      p_++;
      return v;
    }
    for (;;) {
      ws();
      if (peek() != '"')
        fail("expected key");
      std::string key = string();
      ws();
      if (peek() != ':')
        fail("expected :");
      p_++;
      ws();
      Val m = value(depth + 1);
      // RFC 8259 leaves duplicates open; "last one wins, first position kept" is what
      // the library documents, and what we model.
      if (Val* e = v.member(key))
        *e = m;
      else
        v.o.emplace_back(key, m);
      ws();
      if (peek() == ',') {
        p_++;
        continue;
      }
      if (peek() == '}') {
        p_++;
        return v;
      }
      fail("expected , or }");
    }
  }
  static void utf8(std::string& o, uint32_t cp) {
    if (cp < 0x80) {
      o += char(cp);
    } else if (cp < 0x800) {
      o += char(0xC0 | (cp >> 6));
      o += char(0x80 | (cp & 0x3F));
    } else if (cp < 0x10000) {
      o += char(0xE0 | (cp >> 12));
      o += char(0x80 | ((cp >> 6) & 0x3F));
      o += char(0x80 | (cp & 0x3F));
    } else {
      o += char(0xF0 | (cp >> 18));
      o += char(0x80 | ((cp >> 12) & 0x3F));
      o += char(0x80 | ((cp >> 6) & 0x3F));
      o += char(0x80 | (cp & 0x3F));
    }
  }
  uint32_t hex4() {
    if (p_ + 4 > s_.size())
      fail("short \\u");
    uint32_t v = 0;
    for (int j = 0; j < 4; j++) {
      int h = hexv(s_[p_++]);
      if (h < 0)
        fail("bad hex");
      v = v * 16 + uint32_t(h);
    }
    return v;
  }
  std::string string() {
    p_++;
    std::string o;
    for (;;) {
      if (p_ >= s_.size())
        fail("unterminated string");
      unsigned char c = (unsigned char)s_[p_++];
      if (c == '"')
        return o;
      if (c < 0x20 && strict_)
        fail("control char in string");
      if (c != '\\') {
        o += char(c);
        continue;
      }
      if (p_ >= s_.size())
        fail("unterminated escape");
      char e = s_[p_++];
      switch (e) {
        case '"':
          o += '"';
          break;
        case '\\':
          o += '\\';
          break;
        case '/':
          o += '/';
          break;
        case 'b':
          o += '\b';
          break;
        case 'f':
          o += '\f';
          break;
        case 'n':
          o += '\n';
          break;
        case 'r':
          o += '\r';
          break;
        case 't':
          o += '\t';
          break;
        case 'u': {
          uint32_t cu = hex4();
          if (cu >= 0xD800 && cu < 0xDC00) {
            if (p_ + 1 < s_.size() && s_[p_] == '\\' && s_[p_ + 1] == 'u') {
              p_ += 2;
              uint32_t lo = hex4();
              if (lo < 0xDC00 || lo > 0xDFFF)
                fail("unpaired surrogate");
              utf8(o, 0x10000 + ((cu - 0xD800) << 10) + (lo - 0xDC00));
            } else {
              fail("unpaired surrogate");
            }
          } else if (cu >= 0xDC00 && cu <= 0xDFFF) {
            fail("unpaired surrogate");
          } else {
            utf8(o, cu);
          }
          break;
        }
        default:
          fail("bad escape");
      }
    }
  }
  Val number() {
    size_t start = p_;
    bool neg = false;
    bool plus = false;
    if (peek() == '-') {
      neg = true;
      p_++;
    } else if (allowPlus && peek() == '+') {
      plus = true;
      p_++;
    }
    if (peek() == '0') {
      p_++;
    } else if (peek() >= '1' && peek() <= '9') {
      while (peek() >= '0' && peek() <= '9')
        p_++;
    } else {
      fail("bad number");
    }
    bool integral = true;
    if (peek() == '.') {
      integral = false;
      p_++;
      if (!(peek() >= '0' && peek() <= '9'))
        fail("bad fraction");
      while (peek() >= '0' && peek() <= '9')
        p_++;
    }
    if (peek() == 'e' || peek() == 'E') {
      integral = false;
      p_++;
      if (peek() == '+' || peek() == '-')
        p_++;
      if (!(peek() >= '0' && peek() <= '9'))
        fail("bad exponent");
      while (peek() >= '0' && peek() <= '9')
        p_++;
    }
    std::string lit = s_.substr(start, p_ - start);
    if (integral) {
      // exact 64-bit integers
      const char* digits = lit.c_str() + (neg || plus ? 1 : 0);
      unsigned __int128 acc = 0;
      bool big = false;
      for (const char* q = digits; *q; q++) {
        acc = acc * 10 + unsigned(*q - '0');
        if (acc > ((unsigned __int128)1 << 70)) {
          big = true;
          break;
        }
      }
      if (!big) {
        if (!neg && acc <= 0xFFFFFFFFFFFFFFFFull)
          return Val::uinteger(uint64_t(acc));
        if (neg && acc <= ((unsigned __int128)1 << 63)) {
          if (acc == 0)
            return Val::uinteger(0);  // "-0": integer zero
          Val v;
          v.k = K::Int;
          v.i = int64_t(-(__int128)acc);
          return v;
        }
      }
    }
    double d = strtod(lit.c_str(), nullptr);
    return Val::dbl(d, useDouble_);
  }

  const std::string& s_;
  size_t p_ = 0;
  bool useDouble_;
  bool strict_ = false;  // the library emits raw control characters other than the escapable ones
};

// ---------------------------------------------------------------- writer
struct JsonSpelling {
  bool nan = false, inf = false;  // spell non-finite numbers as NaN / Infinity (dialect), else null
  bool rawControl = false;        // write control characters raw instead of \u00XX (for builds without unicode decoding)
  Rng* rng = nullptr;  // null: canonical compact spelling
  bool whitespace = false;
  bool escapes = false;   // \uXXXX for printable characters, \/ , mixed hex case
  bool numbers = false;   // exponent forms, trailing zeros, leading "-0"
  bool surrogates = false;
};

class RefJsonWriter {
 public:
  explicit RefJsonWriter(JsonSpelling sp = JsonSpelling()) : sp_(sp) {}

  std::string write(const Val& v) {
    out_.clear();
    value(v);
    return out_;
  }

 private:
  bool coin(unsigned num, unsigned den) {
    return sp_.rng && sp_.rng->chance(num, den);
  }
  void ws() {
    if (!sp_.whitespace || !sp_.rng)
      return;
    unsigned n = unsigned(sp_.rng->below(4));
    if (sp_.rng->chance(2, 3))
      n = 0;
    static const char w[] = {' ', '\t', '\n', '\r'};
    for (unsigned j = 0; j < n; j++)
      out_ += w[sp_.rng->below(4)];
  }
  void hex4(uint32_t cu) {
    const char* lo = "0123456789abcdef";
    const char* up = "0123456789ABCDEF";
    out_ += "\\u";
    for (int sh = 12; sh >= 0; sh -= 4)
      out_ += (coin(1, 2) ? up : lo)[(cu >> sh) & 15];
  }
  void string(const std::string& s) {
    out_ += '"';
    size_t j = 0;
    while (j < s.size()) {
      unsigned char c = (unsigned char)s[j];
      switch (c) {
        case '"':
          out_ += "\\\"";
          j++;
          continue;
        case '\\':
          out_ += "\\\\";
          j++;
          continue;
        case '\b':
          out_ += "\\b";
          j++;
          continue;
        case '\f':
          out_ += "\\f";
          j++;
          continue;
        case '\n':
          out_ += "\\n";
          j++;
          continue;
        case '\r':
          out_ += "\\r";
          j++;
          continue;
        case '\t':
          out_ += "\\t";
          j++;
          continue;
      }
      if (c < 0x20) {
        if (sp_.rawControl && c != 0)
          out_ += char(c);
        else
          hex4(c);
        j++;
        continue;
      }
      if (c < 0x80) {
        if (sp_.escapes && coin(1, 6)) {
          if (c == '/' && coin(1, 2))
            out_ += "\\/";
          else
            hex4(c);
        } else {
          out_ += char(c);
        }
        j++;
        continue;
      }
      // multi-byte UTF-8: optionally re-spell a well-formed sequence as \u escapes
      if (sp_.escapes && coin(1, 3)) {
        uint32_t cp = 0;
        size_t len = 0;
        if ((c & 0xE0) == 0xC0)
          len = 2, cp = c & 0x1F;
        else if ((c & 0xF0) == 0xE0)
          len = 3, cp = c & 0x0F;
        else if ((c & 0xF8) == 0xF0)
          len = 4, cp = c & 0x07;
        bool good = len && j + len <= s.size();
        for (size_t q = 1; good && q < len; q++) {
          unsigned char cc = (unsigned char)s[j + q];
          if ((cc & 0xC0) != 0x80)
            good = false;
          cp = (cp << 6) | (cc & 0x3F);
        }
        // only canonical encodings round-trip
        if (good && ((len == 2 && cp >= 0x80) || (len == 3 && cp >= 0x800 && !(cp >= 0xD800 && cp <= 0xDFFF)) ||
                     (len == 4 && cp >= 0x10000 && cp <= 0x10FFFF && sp_.surrogates))) {
          if (cp >= 0x10000) {
            uint32_t x = cp - 0x10000;
            hex4(0xD800 + (x >> 10));
            hex4(0xDC00 + (x & 0x3FF));
          } else {
            hex4(cp);
          }
          j += len;
          continue;
        }
      }
      out_ += char(c);
      j++;
    }
    out_ += '"';
  }
  void number(const Val& v) {
    char buf[64];
    switch (v.k) {
      case K::Int:
        // (a leading plus sign is one of the lenient spellings of the documented dialect)
        if (sp_.numbers && v.i >= 0 && coin(1, 10))
          out_ += '+';
        snprintf(buf, sizeof buf, "%lld", (long long)v.i);
        out_ += buf;
        if (sp_.numbers && coin(1, 8))
          out_ += coin(1, 2) ? ".0" : "e0";
        return;
      case K::UInt:
        if (sp_.numbers && coin(1, 10))
          out_ += '+';
        snprintf(buf, sizeof buf, "%llu", (unsigned long long)v.u);
        out_ += buf;
        return;
      default:
        break;
    }
    double d = v.asDouble();
    if (d != d) {
      out_ += sp_.nan ? "NaN" : "null";
      return;
    }
    if (d == INFINITY || d == -INFINITY) {
      out_ += sp_.inf ? (d < 0 ? "-Infinity" : "Infinity") : "null";
      return;
    }
    if (v.k == K::Float)
      snprintf(buf, sizeof buf, "%.9g", d);
    else
      snprintf(buf, sizeof buf, "%.17g", d);
    std::string t = buf;
    if (t.find_first_of(".eEn") == std::string::npos)
      t += ".0";  // keep it a floating literal
    if (sp_.numbers && d > 0 && coin(1, 10))
      t = "+" + t;
    if (sp_.numbers && coin(1, 6)) {
      size_t e = t.find('e');
      if (e != std::string::npos)
        t[e] = 'E';
    }
    if (sp_.numbers && sp_.rng && t.find_first_of("eE") == std::string::npos && coin(1, 8)) {
      // same value, longer token: trailing zeros up to the documented 63-character limit
      size_t target = 48 + size_t(sp_.rng->below(16));  // 48..63
      while (t.size() < target)
        t += '0';
    }
    out_ += t;
  }
  void value(const Val& v) {
    switch (v.k) {
      case K::Null:
        out_ += "null";
        break;
      case K::Bool:
        out_ += v.b ? "true" : "false";
        break;
      case K::Int:
      case K::UInt:
      case K::Float:
      case K::Double:
        number(v);
        break;
      case K::Str:
        string(v.s);
        break;
      case K::Raw:
        out_ += v.s;
        break;
      case K::Arr:
        out_ += '[';
        ws();
        for (size_t j = 0; j < v.a.size(); j++) {
          if (j) {
            out_ += ',';
            ws();
          }
          value(v.a[j]);
          ws();
        }
        out_ += ']';
        break;
      case K::Obj:
        out_ += '{';
        ws();
        for (size_t j = 0; j < v.o.size(); j++) {
          if (j) {
            out_ += ',';
            ws();
          }
          string(v.o[j].first);
          ws();
          out_ += ':';
          ws();
          value(v.o[j].second);
          ws();
        }
        out_ += '}';
        break;
    }
  }

  JsonSpelling sp_;
  std::string out_;
};

// What a conforming reader must obtain from the text the library writes for `v`:
// raw values are replaced by what their text denotes, non-finite numbers by null.
inline Val jsonImage(const Val& v, bool useDouble, bool* rawOk = nullptr, bool keepNaN = false, bool keepInf = false) {
  switch (v.k) {
    case K::Raw: {
      RefJsonParser p(v.s, useDouble);
      p.allowNaN = keepNaN;
      p.allowInf = keepInf;
      auto r = p.parseDocument();
      if (!r.ok) {
        if (rawOk)
          *rawOk = false;
        return Val::null();
      }
      return r.value;
    }
    case K::Float:
      if ((v.f != v.f && !keepNaN) || ((v.f == INFINITY || v.f == -INFINITY) && !keepInf))
        return Val::null();
      return v;
    case K::Double:
      if ((v.d != v.d && !keepNaN) || ((v.d == INFINITY || v.d == -INFINITY) && !keepInf))
        return Val::null();
      return v;
    case K::Arr: {
      Val o = Val::arr();
      for (auto& e : v.a)
        o.a.push_back(jsonImage(e, useDouble, rawOk, keepNaN, keepInf));
      return o;
    }
    case K::Obj: {
      Val o = Val::obj();
      for (auto& e : v.o)
        o.o.emplace_back(e.first, jsonImage(e.second, useDouble, rawOk, keepNaN, keepInf));
      return o;
    }
    default: {
      Val o = v;
      o.id = 0;
      return o;
    }
  }
}

// relative tolerance of looselyEqual(): 1e-6 is the loosest accuracy the properties state; builds
// without doubles parse in float arithmetic and get 1e-5 (accuracy is C12's business, not a claim here)
inline double& looseTolerance() {
  static double t = 1e-6;
  return t;
}

// equality up to the loosest float accuracy the properties state (1e-6 * max(1,|x|));
// integral-valued floats may come back as integers and vice versa.
inline bool looselyEqual(const Val& x, const Val& y, std::string* why = nullptr, const std::string& path = "$") {
  auto say = [&](const std::string& m) {
    if (why)
      *why = path + ": " + m;
    return false;
  };
  if (x.isNum() && y.isNum()) {
    bool xi = x.k == K::Int || x.k == K::UInt, yi = y.k == K::Int || y.k == K::UInt;
    if (xi && yi) {
      if (x.k == y.k && x.i == y.i && x.u == y.u)
        return true;
      return say("integer " + toText(x) + " vs " + toText(y));
    }
    double a = x.asDouble(), b = y.asDouble();
    if (a == b || (a != a && b != b))
      return true;
    double tol = looseTolerance() * std::max(1.0, fabs(a));
    if (fabs(a - b) <= tol)
      return true;
    return say("number " + toText(x) + " vs " + toText(y));
  }
  if (x.k != y.k)
    return say(std::string("kind ") + kindName(x.k) + " vs " + kindName(y.k));
  switch (x.k) {
    case K::Null:
      return true;
    case K::Bool:
      return x.b == y.b || say("bool");
    case K::Str:
    case K::Raw:
      return x.s == y.s || say("string " + hexdump(x.s) + " vs " + hexdump(y.s));
    case K::Arr:
      if (x.a.size() != y.a.size())
        return say("array size");
      for (size_t j = 0; j < x.a.size(); j++)
        if (!looselyEqual(x.a[j], y.a[j], why, path + "[" + std::to_string(j) + "]"))
          return false;
      return true;
    case K::Obj:
      if (x.o.size() != y.o.size())
        return say("object size");
      for (size_t j = 0; j < x.o.size(); j++) {
        if (x.o[j].first != y.o[j].first)
          return say("key " + hexdump(x.o[j].first) + " vs " + hexdump(y.o[j].first));
        if (!looselyEqual(x.o[j].second, y.o[j].second, why, path + "." + quote(x.o[j].first)))
          return false;
      }
      return true;
    default:
      return true;
  }
}

}  // namespace sim
