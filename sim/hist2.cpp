// hist family, second part: deserialize-into, read-only operations, stepping,
// observation (twin replicas), generation and execution of plans.
#include <sstream>

#include "hist.hpp"

namespace sim {
namespace hist {

// ======================================================================= deserialize into

void HistSim::opDeser(const Op& op, size_t ix) {
  Ref* h = resolve(op, "h");
  if (h->view == 'c') {
    lastSkip = "view";
    return;
  }
  Val v = parseText(op.str("v"));
  normalise(v, kUseDouble);
  bool mp = op.str("fmt") == "mp";
  if (!mp && !kDecodeUnicode) {
    // without unicode decoding a NUL cannot travel in a JSON string: keep it out of text and model
    visit(v, [](Val& x) {
      for (auto& c : x.s)
        if (c == 0 && x.k == K::Str)
          c = 'z';
      for (auto& m : x.o)
        for (auto& c : m.first)
          if (c == 0)
            c = 'z';
    });
    // (keys made equal by the replacement: keep the first)
    visit(v, [](Val& x) {
      if (x.k != K::Obj)
        return;
      std::vector<std::pair<std::string, Val>> keep;
      for (auto& m : x.o) {
        bool dup = false;
        for (auto& k : keep)
          if (k.first == m.first)
            dup = true;
        if (!dup)
          keep.push_back(m);
      }
      x.o = keep;
    });
  }
  int doc = h->doc;
  Val* node = findNode(doc, h->node);
  // optional sub-selector: deserializeX(h[sel], …)
  bool viaSel = op.has("s");
  Sel s;
  if (viaSel)
    s = Sel::parse(op.str("s"));
  if (viaSel && h->view != 'v') {
    lastSkip = "view";
    return;
  }
  Judge j;
  auto region = pathOf(doc, h->node);
  if (viaSel)
    region.push_back(s);
  beginOp(j, doc, region);
  Val* slot = viaSel ? mGetOrCreate(*node, s) : node;
  bool rootDoc = h->root && !viaSel && op.num("via") == 1;
  Val image = mp ? v : jsonImage(v, kUseDouble, nullptr, kNaN, kInf);
  if (slot)
    assignContent(*slot, image);
  j.predicted = slot != nullptr;
  j.floatsFromText = !mp;
  if (rootDoc) {
    dropDocRefs(doc);  // deserializing into the document clears it and may shrink it
    docs_[size_t(doc)].ovf = false;
  } else if (h->view == 'a' || h->view == 'o') {
    h->alive = h->root;  // the typed view was reset by clear()
  }
  std::string bytes;
  if (mp) {
    RefMsgPackEncoder enc;
    bytes = enc.encode(v);
  } else {
    JsonSpelling sp;
    sp.nan = kNaN;
    sp.inf = kInf;
    sp.rawControl = !kDecodeUnicode;
    RefJsonWriter w(sp);
    bytes = w.write(v);
  }
  if (real_) {
    startFaults(op);
    DeserializationError err = DeserializationError::Ok;
    JsonDocument& d = *docs_[size_t(doc)].doc;
    int kind = int(op.num("rk"));
    auto run = [&](auto&& dst) -> DeserializationError {
      if (mp) {
        if (kind == 1) {
          std::string* tmp = new std::string(bytes);
          auto e = deserializeMsgPack(dst, *tmp);
          delete tmp;
          return e;
        }
        char* blk = static_cast<char*>(malloc(bytes.size() ? bytes.size() : 1));
        memcpy(blk, bytes.data(), bytes.size());
        auto e = deserializeMsgPack(dst, static_cast<const char*>(blk), bytes.size());
        free(blk);
        return e;
      }
      if (kind == 1) {
        std::string* tmp = new std::string(bytes);
        auto e = deserializeJson(dst, *tmp);
        delete tmp;
        return e;
      }
      if (kind == 2) {
        std::istringstream in(bytes);
        return deserializeJson(dst, in);
      }
      char* blk = static_cast<char*>(malloc(bytes.size() + 1));
      memcpy(blk, bytes.data(), bytes.size());
      blk[bytes.size()] = 0;
      auto e = kind == 3 ? deserializeJson(dst, static_cast<const char*>(blk))
                         : deserializeJson(dst, static_cast<const char*>(blk), bytes.size());
      memset(blk, 0xEE, bytes.size() + 1);
      free(blk);
      return e;
    };
    if (rootDoc) {
      err = run(d);
      docs_[size_t(doc)].leaky = false;
    } else if (viaSel) {
      JsonVariant dst = realVariant(*h);
      if (s.isKey) {
        std::string key = s.key;
        err = run(dst[key]);
      } else {
        err = run(dst[s.idx]);
      }
    } else {
      JsonVariant dst = realVariant(*h);
      err = run(dst);
    }
    if (err != DeserializationError::Ok && err != DeserializationError::NoMemory)
      violate("C04:deserialize-into", std::string("deserializing a valid input into a value returned ") + err.c_str() +
                                          " for " + hexdump(bytes));
    j.actual = err == DeserializationError::Ok;
  }
  endOp(j, op, ix);
}

// ======================================================================= read-only operations

void HistSim::opSer(const Op& op, size_t ix) {
  Ref* h = resolve(op, "h");
  int doc = h->doc;
  Val* node = findNode(doc, h->node);
  Judge j;
  j.doc = -1;
  j.hasReturn = false;
  if (real_) {
    startFaults(op);
    uint64_t before = 0;
    for (auto& a : allocs_)
      before += a->calls();
    auto shapeBefore = opt.inspect ? verif::Inspector::checkShape(*docs_[size_t(doc)].doc, "C04:shape", true).stateHash : 0;
    JsonVariantConst src = realConst(*h);
    std::string fmt = op.str("fmt", "json");
    std::string out;
    size_t n, m;
    bool jsonRaw = false, binRaw = false;
    visitc(*node, [&](const Val& x) {
      if (x.k == K::Raw) {
        std::string pl;
        int8_t ty = 0;
        if (asBin(x.s, pl) || asExt(x.s, ty, pl)) {
          binRaw = true;
        } else {
          jsonRaw = true;  // a fragment of the caller's own making (possibly bytes that only look like bin/ext)
          if (!x.s.empty() && (unsigned char)x.s[0] >= 0x80)
            binRaw = true;
        }
      }
    });
    if (fmt == "mp" && jsonRaw) {
      // raw JSON fragments are written verbatim: the output is not MessagePack, by the caller's choice
      n = serializeMsgPack(src, out);
      m = measureMsgPack(src);
    } else if (fmt == "mp") {
      n = serializeMsgPack(src, out);
      m = measureMsgPack(src);
      RefMsgPackDecoder dec(out, kUseDouble);
      auto r = dec.decode();
      if (r.status != MpDecodeResult::Ok || r.consumed != out.size())
        violate("C08:not-one-object", "serializeMsgPack output is not exactly one MessagePack object");
      Val expect = *node;
      if (!sameValue(r.value, expect)) {
        // integral floats legitimately travel as integers
        std::string why;
        if (!looselyEqual(expect, r.value, &why))
          violate("C04:serialize-mismatch", "MessagePack output does not denote the value: " + why);
      }
    } else {
      if (fmt == "pretty") {
        n = serializeJsonPretty(src, out);
        m = measureJsonPretty(src);
      } else {
        n = serializeJson(src, out);
        m = measureJson(src);
      }
      bool rawOk = true;
      Val expect = jsonImage(*node, kUseDouble, &rawOk, kNaN, kInf);
      if (rawOk && !binRaw) {
        RefJsonParser p(out, kUseDouble);
        p.allowNaN = kNaN;
        p.allowInf = kInf;
        auto r = p.parseDocument();
        if (!r.ok)
          violate("C04:serialize-mismatch", "JSON output is not accepted by the reference parser: " + r.error + " in " + hexdump(out));
        std::string why;
        if (!looselyEqual(expect, r.value, &why))
          violate("C04:serialize-mismatch", "JSON output does not denote the value: " + why);
      }
    }
    if (n != out.size() || m != n)
      violate("C04:serialize-mismatch", "serialize returned " + std::to_string(n) + ", produced " +
                                            std::to_string(out.size()) + " bytes, measure says " + std::to_string(m));
    if (t_)
      t_->u(hashStr(out));
    obs.u(hashStr(out));
    uint64_t after = 0;
    for (auto& a : allocs_)
      after += a->calls();
    if (after != before)
      violate("C06:readonly-allocates", "serialize/measure called the allocator");
    if (opt.inspect) {
      auto shapeAfter = verif::Inspector::checkShape(*docs_[size_t(doc)].doc, "C04:shape", true).stateHash;
      if (shapeAfter != shapeBefore)
        violate("C04:readonly-mutates", "a read-only operation changed the concrete state of the document");
    }
  }
  endOp(j, op, ix);
}

// comparison of two live values: must agree with structural equality of the model
// (only equality; ordering and mixed-type coherence are C18's business)
void HistSim::opCmp(const Op& op, size_t ix) {
  Ref* a = resolve(op, "h");
  Ref* b = resolve(op, "src");
  Judge j;
  j.doc = -1;
  j.hasReturn = false;
  if (real_) {
    startFaults(op);
    uint64_t before = 0;
    for (auto& al : allocs_)
      before += al->calls();
    JsonVariantConst x = realConst(*a), y = realConst(*b);
    bool eq = x == y;
    bool ne = x != y;
    if (eq == ne)
      violate("C04:compare-incoherent", "a==b and a!=b agree");
    const Val* ma = nodeOf(*a);
    const Val* mb = nodeOf(*b);
    // predict only where the model is unambiguous: identical node, or both free of numbers/raw
    bool simple = true;
    auto scan = [&](const Val& v) {
      if (v.isNum() || v.k == K::Raw || v.k == K::Obj)
        simple = false;
    };
    visitc(*ma, scan);
    visitc(*mb, scan);
    if (simple && eq != sameValue(*ma, *mb))
      violate("C04:compare-mismatch", "a==b is " + std::to_string(eq) + " for " + toText(*ma).substr(0, 80) + " and " +
                                          toText(*mb).substr(0, 80));
    if (t_)
      t_->u(eq);
    uint64_t after = 0;
    for (auto& al : allocs_)
      after += al->calls();
    if (after != before)
      violate("C06:readonly-allocates", "a comparison called the allocator");
  }
  endOp(j, op, ix);
}

// bulk append (capacity-limit plans): h.add(i) n times, every outcome judged
void HistSim::opFill(const Op& op, size_t ix) {
  Ref* h = resolve(op, "h");
  if (h->view == 'c' || h->view == 'o') {
    lastSkip = "view";
    return;
  }
  int doc = h->doc;
  Val* node = findNode(doc, h->node);
  if (!(node->k == K::Null || node->k == K::Arr)) {
    lastSkip = "kind";
    return;
  }
  size_t n = size_t(op.unum("n"));
  std::string kind = op.str("kind", "int");
  Judge j;
  beginOp(j, doc, pathOf(doc, h->node));
  j.hasReturn = false;
  if (node->k == K::Null)
    node->clearTo(K::Arr);
  auto& ds = docs_[size_t(doc)];
  if (real_) {
    startFaults(op);
    JsonVariant dst = realVariant(*h);
    size_t added = 0;
    bool failedOnce = false;
    if (kind == "carr") {
      // copyArray(C array -> JsonArray) towards the limit: doubles take an element slot and an extension slot each;
      // `true` must mean that every element arrived
      std::vector<double> src(n);
      for (size_t q = 0; q < n; q++)
        src[q] = double(q) + 0.1;  // (not a float: a double that a float holds exactly is stored as float, in one slot)
      size_t before = node->a.size();
      bool ok = h->view == 'a' ? copyArray(src.data(), n, h->a) : copyArray(src.data(), n, dst);
      JsonArrayConst got = realConst(*h).as<JsonArrayConst>();
      size_t present = got.size();
      bool complete = present == before + n;
      for (size_t q = 0; q < n && complete; q++)
        if (!got[before + q].is<double>() || got[before + q].as<double>() != (kUseDouble ? src[q] : double(float(src[q]))))
          complete = false;
      if (ok && !complete)
        violate("C19:limit-unreported", "copyArray() returned true although not every element arrived (" +
                                            std::to_string(present - before) + " of " + std::to_string(n) + " present, last ones null)");
      if (!ok && !ds.doc->overflowed())
        violate("C19:limit-unreported", "copyArray() returned false but overflowed() is false");
      // the model follows what is there
      for (size_t q = before; q < present; q++) {
        Val nv = got[q].is<double>() ? Val::dbl(got[q].as<double>(), kUseDouble) : Val::null();
        normalise(nv, kUseDouble);
        nv.id = newId();
        node->a.push_back(nv);
      }
      count("fill.copyarray");
      if (!ok) {
        count("fill.hit_limit");
        ds.leaky = true;
      }
      n = 0;  // nothing left for the element-wise loop
    }
    for (size_t q = 0; q < n; q++) {
      bool r;
      Val nv;
      if (kind == "big") {
        int64_t x = int64_t(0x100000000ll) + int64_t(q);
        r = dst.add(x);
        nv = Val::integer(x);
      } else if (kind == "str") {
        std::string sv = "s" + std::to_string(q % 7);
        r = dst.add(sv);
        nv = Val::str(sv);
      } else if (kind == "same") {
        std::string sv = "the same copied string";
        r = dst.add(sv);
        nv = Val::str(sv);
      } else {
        r = dst.add(int(q));
        nv = Val::integer(int64_t(q));
      }
      if (r) {
        if (failedOnce && kind != "str" && kind != "same" && opt.mode != "fault")
          violate("C19:limit-not-monotonic", "an add() succeeded after an earlier one had failed at the limit");
        nv.id = newId();
        node->a.push_back(nv);
        added++;
      } else {
        failedOnce = true;
        if (!ds.doc->overflowed())
          violate("C19:limit-unreported", "add() returned false at the limit but overflowed() is false");
      }
    }
    count("fill.added", added);
    if (failedOnce) {
      count("fill.hit_limit");
      count("fault.capacity_limit_hit");
      ds.leaky = true;
      // legitimacy: the failure must come from exhaustion of the slot space
      if (lastOpFaults_ == 0 && allocs_[size_t(ds.alloc < 0 ? 0 : ds.alloc)]->nFaultsFiredOp == 0) {
        auto g = verif::Inspector::geometry(*ds.doc);
        size_t limit = size_t(verif::Inspector::NULLSLOT);
        size_t need = kind == "big" ? 2 : 1;  // a 64-bit number takes a value slot and an extension slot
        if (g.usedSlots > limit)
          violate("C19:id-wrap", "more slots handed out (" + std::to_string(g.usedSlots) + ") than slot ids exist (" +
                                     std::to_string(limit) + ")");
        if (g.deadPools > 0)
          count("limit.after_dead_pool");  // an earlier (injected) failure left a pool without storage: its ids are gone until clear()
        else if ((limit - g.usedSlots) + g.freeListLen >= need)
          violate("C19:premature-limit", "add() failed although " + std::to_string(limit - g.usedSlots) +
                                             " slot ids and " + std::to_string(g.freeListLen) +
                                             " free slots remain (used " + std::to_string(g.usedSlots) + ")");
        count("limit.slots_exhausted");
      }
    }
    ds.ovf = ds.doc->overflowed();
  } else {
    // model-only (generation): assume everything fits
    for (size_t q = 0; q < n; q++) {
      Val nv = kind == "carr" ? Val::dbl(double(q) + 0.1, true)
               : kind == "big" ? Val::integer(int64_t(0x100000000ll) + int64_t(q))
               : kind == "str" ? Val::str("s" + std::to_string(q % 7))
               : kind == "same" ? Val::str("the same copied string")
                                : Val::integer(int64_t(q));
      nv.id = newId();
      node->a.push_back(nv);
    }
  }
  // the model was updated from the actual outcomes: judge strictly
  stopFaults();
  if (real_) {
    pruneRefs();
    checkAll(op, ix, true, doc);
  }
}

// operations that read a document shared (read-only) by all tasks: copy source, filter,
// comparison operand, serialization source
void HistSim::opShared(const Op& op, size_t ix) {
  if (!opt.shared) {
    lastSkip = "no-shared-document";
    return;
  }
  Ref* h = resolve(op, "h");
  if (h->view != 'v') {
    lastSkip = "view";
    return;
  }
  std::string what = op.str("what", "copy");
  int doc = h->doc;
  Val* node = findNode(doc, h->node);
  JsonVariantConst sv = opt.shared->as<JsonVariantConst>();
  const Val* sm = &opt.sharedModel;
  // optionally a member of the shared document
  if (op.has("k") && sm->k == K::Obj && !sm->o.empty()) {
    auto& m = sm->o[size_t(op.unum("k") % sm->o.size())];
    sv = sv[m.first];
    sm = &m.second;
  }
  Judge j;
  beginOp(j, doc, pathOf(doc, h->node));
  if (what == "copy") {
    assignContent(*node, *sm);
    if (real_) {
      startFaults(op);
      j.actual = realVariant(*h).set(sv);
    }
  } else if (what == "filter") {
    Val v = parseText(op.str("v"));
    normalise(v, kUseDouble);
    Val image = jsonImage(v, kUseDouble, nullptr, kNaN, kInf);
    assignContent(*node, project(image, *sm));
    j.floatsFromText = true;
    if (real_) {
      startFaults(op);
      JsonSpelling sp;
      sp.nan = kNaN;
      sp.inf = kInf;
      sp.rawControl = !kDecodeUnicode;
      RefJsonWriter w(sp);
      std::string text = w.write(v);
      auto err = deserializeJson(realVariant(*h), text, DeserializationOption::Filter(sv),
                                 DeserializationOption::NestingLimit(40));
      j.actual = err == DeserializationError::Ok;
      if (err != DeserializationError::Ok && err != DeserializationError::NoMemory)
        violate("C04:deserialize-into", std::string("filtered deserialization of a valid text returned ") + err.c_str());
    }
  } else {  // ser / cmp: read-only
    j.hasReturn = false;
    j.doc = -1;
    if (real_) {
      startFaults(op);
      std::string out;
      serializeJson(sv, out);
      std::string mp;
      serializeMsgPack(sv, mp);
      obs.u(hashStr(out));
      obs.u(hashStr(mp));
      bool eq = realConst(*h) == sv;
      obs.u(eq);
      RefJsonParser p(out, kUseDouble);
      p.allowNaN = kNaN;
      p.allowInf = kInf;
      auto r = p.parseDocument();
      std::string why;
      if (!r.ok || !looselyEqual(jsonImage(*sm, kUseDouble, nullptr, kNaN, kInf), r.value, &why))
        violate("C20:shared-document", "the shared read-only document serializes to something else than its value: " + why);
    }
  }
  endOp(j, op, ix);
}

// a Printable whose text goes through the library's string builder (doc.set(printable))
namespace {
class SimPrintable : public Printable {
 public:
  explicit SimPrintable(const std::string& s, size_t chunk) : s_(s), chunk_(chunk ? chunk : 1) {}
  size_t printTo(Print& p) const override {
    size_t n = 0;
    for (size_t i = 0; i < s_.size();) {
      size_t k = std::min(chunk_, s_.size() - i);
      size_t w = k == 1 ? p.write(uint8_t(s_[i])) : p.write(reinterpret_cast<const uint8_t*>(s_.data() + i), k);
      n += w;
      if (w < k)
        break;  // the sink stopped accepting (allocation failure inside the builder)
      i += k;
    }
    return n;
  }

 private:
  std::string s_;
  size_t chunk_;
};
}  // namespace

// reading through proxies never creates anything: h[s1][s2].is<T>() / as<T>() / isNull() / size()
void HistSim::opPeek(const Op& op, size_t ix) {
  Ref* h = resolve(op, "h");
  Sel s1 = Sel::parse(op.str("s1")), s2 = Sel::parse(op.str("s2"));
  if (h->view != 'v') {
    lastSkip = "view";
    return;
  }
  int doc = h->doc;
  const Val* node = findNode(doc, h->node);
  auto child = [](const Val* n, const Sel& s) -> const Val* {
    if (!n)
      return nullptr;
    if (s.isKey && n->k == K::Obj)
      return n->member(s.key);
    if (!s.isKey && n->k == K::Arr && s.idx < n->a.size())
      return &n->a[s.idx];
    return nullptr;
  };
  const Val* target = child(child(node, s1), s2);
  Judge j;
  j.doc = -1;
  j.hasReturn = false;
  if (real_) {
    startFaults(op);
    uint64_t before = 0;
    for (auto& a : allocs_)
      before += a->calls();
    JsonVariant v = realVariant(*h);
    bool viadoc = h->root && op.num("via") == 1;
    JsonDocument& d = *docs_[size_t(doc)].doc;
    auto look = [&](auto&& proxy) {
      WalkOpts wo;
      wo.cls = "C04:proxy-read";
      wo.lookups = false;
      JsonVariantConst c = proxy;  // conversion of a proxy to a const reference
      Val got = extract(c, wo);
      Val want = target ? *target : Val::null();
      if (!sameValue(got, want))
        violate("C04:proxy-read", "reading through proxies gives " + toText(got).substr(0, 80) + ", the model says " +
                                      toText(want).substr(0, 80));
      if (proxy.isNull() != (want.k == K::Null) || proxy.size() != want.size())
        violate("C04:proxy-read", "isNull()/size() through proxies disagree with the model");
      bool isInt = proxy.template is<int>();
      int asInt = proxy.template as<int>();
      int dflt = proxy | 12345;
      if (want.k == K::UInt && want.u < 1000 && (!isInt || asInt != int(want.u) || dflt != int(want.u)))
        violate("C04:proxy-read", "is<int>/as<int>/operator| through proxies disagree with the model");
      if (!want.isNum() && want.k != K::Str && want.k != K::Bool && dflt != 12345)
        violate("C04:proxy-read", "operator| did not fall back to its default for a non-numeric value");
      if (want.k == K::Str) {
        std::string sdef = proxy | std::string("dflt");
        if (sdef != want.s.substr(0, sdef.size()) && want.s.find('\0') == std::string::npos)
          violate("C04:proxy-read", "operator| on a string through proxies disagrees with the model");
      }
      obs.u(valueHash(got));
    };
    if (s1.isKey && s2.isKey) {
      if (viadoc)
        look(d[s1.key][s2.key]);
      else
        look(v[s1.key][s2.key]);
    } else if (s1.isKey) {
      if (viadoc)
        look(d[s1.key][s2.idx]);
      else
        look(v[s1.key][s2.idx]);
    } else if (s2.isKey) {
      if (viadoc)
        look(d[s1.idx][s2.key]);
      else
        look(v[s1.idx][s2.key]);
    } else {
      if (viadoc)
        look(d[s1.idx][s2.idx]);
      else
        look(v[s1.idx][s2.idx]);
    }
    uint64_t after = 0;
    for (auto& a : allocs_)
      after += a->calls();
    if (after != before)
      violate("C06:readonly-allocates", "reading through proxies called the allocator");
  }
  endOp(j, op, ix);  // checkAll verifies that nothing was created
}

// for (JsonVariant e : array) e.set(x)  /  for (JsonPair kv : object) kv.value().set(x)
void HistSim::opEach(const Op& op, size_t ix) {
  Ref* h = resolve(op, "h");
  if (h->view == 'c') {
    lastSkip = "view";
    return;
  }
  int doc = h->doc;
  Val* node = findNode(doc, h->node);
  if (!node->isContainer()) {
    lastSkip = "kind";
    return;
  }
  Val v = parseText(op.str("v"));
  normalise(v, kUseDouble);
  if (v.isContainer())
    v = Val::integer(3);
  Judge j;
  beginOp(j, doc, pathOf(doc, h->node));
  j.hasReturn = false;
  // several assignments in one step: a later one may release slots after an earlier one needed a new
  // pool, so the "no new pool while the free list is non-empty" rule does not apply to this step
  poolsBefore_[size_t(doc)] = SIZE_MAX;
  for (auto& e : node->a)
    assignContent(e, v);
  for (auto& m : node->o)
    assignContent(m.second, v);
  if (real_) {
    startFaults(op);
    JsonVariant dst = realVariant(*h);
    size_t arg = 0;
    if (node->k == K::Arr) {
      JsonArray a = h->view == 'a' ? h->a : dst.as<JsonArray>();
      for (JsonVariant e : a)
        realSetValue(e, v, ix, arg++);
    } else {
      JsonObject o = h->view == 'o' ? h->o : dst.as<JsonObject>();
      for (JsonPair kv : o)
        realSetValue(kv.value(), v, ix, arg++);
    }
  }
  endOp(j, op, ix);
}

// obj[d] = a prefix of the characters the library itself hands out for obj[s] (string_view / sized JsonString over
// as<JsonString>().c_str()): the argument points into the document's own string storage
void HistSim::opFeed(const Op& op, size_t ix) {
  Ref* h = resolve(op, "h");
  if (h->view == 'c' || h->view == 'a') {
    lastSkip = "view";
    return;
  }
  int doc = h->doc;
  Val* node = findNode(doc, h->node);
  Sel src = Sel::parse(op.str("s")), dstSel = Sel::parse(op.str("d"));
  const Val* sv = node->k == K::Obj && src.isKey ? node->member(src.key) : nullptr;
  if (!sv || sv->k != K::Str || !dstSel.isKey || dstSel.key == src.key) {
    lastSkip = "kind";
    return;
  }
  size_t cut = std::min<size_t>(size_t(op.unum("cut")), sv->s.size());
  Val nv = Val::str(sv->s.substr(0, cut), false);
  Judge j;
  auto region = pathOf(doc, h->node);
  region.push_back(dstSel);
  beginOp(j, doc, region);
  j.hasReturn = false;
  Val* slot = mGetOrCreate(*node, dstSel);
  if (slot)
    assignContent(*slot, nv);
  if (real_) {
    startFaults(op);
    JsonObject o = h->view == 'o' ? h->o : realVariant(*h).as<JsonObject>();
    JsonString js = o[JsonString(src.key.data(), src.key.size(), JsonString::Copied)].as<JsonString>();
    if (!js.isNull()) {
      Src ks = pickSrc(ix, 0, dstSel.key, false);
      bool asJs = op.num("kind") == 1;
      withStr(ks, dstSel.key, arena_, [&](auto&& key) {
        if (asJs)
          o[key] = JsonString(js.c_str(), cut, JsonString::Copied);
        else
          o[key] = std::string_view(js.c_str(), cut);
        return 0;
      });
      count("op.feed");
    }
  }
  endOp(j, op, ix);
}

// a string of maxLength-1 / maxLength / maxLength+1 bytes through the API (the limit is a build option)
void HistSim::opLongSet(const Op& op, size_t ix) {
  Ref* h = resolve(op, "h");
  if (h->view != 'v') {
    lastSkip = "view";
    return;
  }
  size_t maxLen = detail::StringNode::maxLength;
  if (maxLen > 70000) {
    lastSkip = "length-limit-out-of-reach";
    return;
  }
  long over = long(op.num("over"));
  size_t len = size_t(long(maxLen) + over);
  std::string s(len, 'q');
  for (size_t q = 0; q < len; q += 89)
    s[q] = char('a' + (q / 89) % 26);
  bool asKey = op.str("where") == "key";
  int doc = h->doc;
  Val* node = findNode(doc, h->node);
  Judge j;
  auto region = pathOf(doc, h->node);
  if (asKey)
    region.push_back(Sel::k(s));
  beginOp(j, doc, region);
  bool fits = len <= maxLen;
  if (asKey) {
    Val* slot = fits ? mGetOrCreate(*node, Sel::k(s)) : nullptr;
    if (slot)
      assignContent(*slot, Val::integer(1));
    // a key that cannot be stored: nothing is added; on a value of the wrong kind nothing happens either
    j.predicted = slot != nullptr;
  } else {
    // a string value that cannot be stored leaves null behind and reports the failure
    assignContent(*node, fits ? Val::str(s) : Val::null());
    j.predicted = fits;
  }
  if (real_) {
    startFaults(op);
    JsonVariant dst = realVariant(*h);
    unsigned how = unsigned(op.num("via"));
    if (asKey) {
      j.actual = dst[s].set(1);
    } else if (how == 1) {
      // const char*: stored by address, so no length limit applies
      const char* p = arena_.intern(s);
      j.actual = dst.set(p);
      Val* n2 = findNode(doc, h->node);
      assignContent(*n2, Val::str(s, true));
      j.predicted = true;
      fits = true;
    } else if (how == 2) {
      SimPrintable pr(s, 1 + size_t(op.num("chunk", 7)));
      j.actual = dst.set(pr);
    } else {
      j.actual = dst.set(s);
    }
    auto& ds = docs_[size_t(doc)];
    bool kindAllows = !asKey || j.pre.k == K::Null || j.pre.k == K::Obj || !pathOf(doc, h->node).empty();
    if (asKey) {
      // the key is only looked at when the target can hold members
      const Val* before = &j.pre;
      for (auto& sel : pathOf(doc, h->node))
        before = before ? (sel.isKey ? before->member(sel.key) : (sel.idx < before->a.size() ? &before->a[sel.idx] : nullptr)) : nullptr;
      kindAllows = before && (before->k == K::Null || before->k == K::Obj);
    }
    if (!fits && how != 1 && kindAllows) {
      count("limit.string_too_long_api");
      if (!ds.doc->overflowed())
        violate("C19:limit-unreported", "a string above the length limit was refused but overflowed() is false");
      ds.leaky = true;
    } else if (fits) {
      count("limit.string_at_limit_api");
    }
  }
  endOp(j, op, ix);
}

// ======================================================================= stepping

void HistSim::step(const Op& op, size_t ix) {
  lastSkip.clear();
  lastOpFailable_ = lastOpFaults_ = 0;
  const std::string& name = op.name();
  if (t_)
    t_->tag(name.c_str());
  if (name == "set")
    opSet(op, ix);
  else if (name == "add")
    opAdd(op, ix);
  else if (name == "addn")
    opAddNew(op, ix);
  else if (name == "sets")
    opSetSel(op, ix);
  else if (name == "set2")
    opSet2(op, ix);
  else if (name == "to")
    opTo(op, ix);
  else if (name == "tos")
    opToSel(op, ix);
  else if (name == "rem")
    opRemove(op, ix);
  else if (name == "clr")
    opClear(op, ix);
  else if (name == "copy")
    opCopy(op, ix);
  else if (name == "cset")
    opCSet(op, ix);
  else if (name == "take")
    opTake(op, ix);
  else if (name == "drop")
    opDrop(op, ix);
  else if (name == "doc")
    opDoc(op, ix);
  else if (name == "deser")
    opDeser(op, ix);
  else if (name == "ser")
    opSer(op, ix);
  else if (name == "cmp")
    opCmp(op, ix);
  else if (name == "fill")
    opFill(op, ix);
  else if (name == "shr")
    opShared(op, ix);
  else if (name == "peek")
    opPeek(op, ix);
  else if (name == "feed")
    opFeed(op, ix);
  else if (name == "each")
    opEach(op, ix);
  else if (name == "longset")
    opLongSet(op, ix);
  else
    throw HarnessError("unknown hist op " + name);
  if (!lastSkip.empty()) {
    count("hist.ops_skipped");
    if (lastSkip.compare(0, 6, "known:") == 0)
      count("hist.ops_skipped_known_finding");
  } else {
    count("hist.ops");
    count(("op." + name).c_str());
  }
}

void HistSim::finish() {
  if (!real_)
    return;
  for (auto& a : allocs_)
    a->faults.bernoulliDen = 0;  // "as soon as allocation succeeds again"
  for (int d = 0; d < ndocs(); d++) {
    // one last look at every value (linked buffers released after the last operation included)
    WalkOpts wo;
    wo.lookups = false;
    extract(docs_[size_t(d)].doc->as<JsonVariantConst>(), wo);
  }
  // 1. clear every document: everything returns to the allocator; overflowed resets
  for (int d = 0; d < ndocs(); d++) {
    auto& ds = docs_[size_t(d)];
    ds.doc->clear();
    ds.model.clearTo(K::Null);
    ds.ovf = false;
    ds.leaky = false;
    if (ds.doc->overflowed())
      violate("C05:overflowed-after-clear", "overflowed() still true after clear()");
  }
  dropDocRefs(-1);
  for (auto& r : refs_)
    if (!r.root)
      r.alive = false;
  for (auto& a : allocs_)
    a->expectEmpty("C06:leak-after-clear", "after clear() of every document");
  // 2. the documents work normally again (allocation succeeds from now on)
  for (int d = 0; d < ndocs(); d++) {
    auto& ds = docs_[size_t(d)];
    JsonDocument& doc = *ds.doc;
    bool ok = doc["k"].set("v");
    ok = doc["n"].add(1) && ok;
    ok = doc["n"].add(std::string("copied")) && ok;
    std::string out;
    serializeJson(doc, out);
    if (!ok || out != "{\"k\":\"v\",\"n\":[1,\"copied\"]}" || doc.overflowed())
      violate("C05:unusable-after-clear", "document does not work normally after clear(): " + out);
    if (opt.inspect) {
      auto rep = verif::Inspector::checkShape(doc, "C04:shape", false);
      if (rep.leaked)
        violate("C06:slot-leak", "slots leaked in a freshly cleared document");
    }
  }
  // 3. destruction returns everything
  for (int d = 0; d < ndocs(); d++) {
    delete docs_[size_t(d)].doc;
    docs_[size_t(d)].doc = nullptr;
  }
  for (auto& a : allocs_)
    a->expectEmpty("C06:leak-at-destruction", "after destruction of every document");
  tmpAlloc_.expectEmpty("C06:leak-at-destruction", "temporary documents");
}

// ======================================================================= observation (C14)

namespace {

template <typename T>
void obsInt(std::ostringstream& o, JsonVariantConst v) {
  o << (v.is<T>() ? 'y' : 'n') << (long long)v.as<T>() << ',';
}
template <typename T>
void obsUInt(std::ostringstream& o, JsonVariantConst v) {
  o << (v.is<T>() ? 'y' : 'n') << (unsigned long long)v.as<T>() << ',';
}

void observe(std::ostringstream& o, JsonVariantConst v, int depth) {
  if (depth > 40) {
    o << "<deep>";
    return;
  }
  o << '(';
  o << (v.isNull() ? 'N' : '-') << (v.isUnbound() ? 'U' : '-');
  o << (v.is<bool>() ? 'y' : 'n') << v.as<bool>() << ',';
  obsInt<signed char>(o, v);
  obsUInt<unsigned char>(o, v);
  obsInt<short>(o, v);
  obsUInt<unsigned short>(o, v);
  obsInt<int>(o, v);
  obsUInt<unsigned int>(o, v);
  obsInt<long>(o, v);
  obsUInt<unsigned long>(o, v);
  obsInt<long long>(o, v);
  obsUInt<unsigned long long>(o, v);
  {
    float f = v.as<float>();
    double d = v.as<double>();
    o << (v.is<float>() ? 'y' : 'n') << floatBits(f) << ',' << (v.is<double>() ? 'y' : 'n') << doubleBits(d) << ',';
  }
  {
    const char* p = v.as<const char*>();
    JsonString js = v.as<JsonString>();
    o << (v.is<const char*>() ? 'y' : 'n') << (v.is<JsonString>() ? 'y' : 'n') << (v.is<std::string>() ? 'y' : 'n');
    o << (p ? quote(std::string(p)) : std::string("null")) << ',';
    o << (js.isNull() ? std::string("null") : quote(std::string(js.c_str(), js.size()))) << ',';
    o << quote(v.as<std::string>()) << ',';
    ::String as = v.as<::String>();
    o << quote(std::string(as.c_str())) << ',';
    std::string_view sv = v.as<std::string_view>();
    o << quote(std::string(sv)) << ',';
  }
  o << (v.is<JsonArrayConst>() ? 'A' : '-') << (v.is<JsonObjectConst>() ? 'O' : '-') << v.size() << ',' << v.nesting()
    << ',';
  // comparisons against scalars and strings
  o << (v == 0) << (v == 1) << (v < 1) << (v > 1.5) << (v == true) << (v == "a") << (v == std::string("42"))
    << (v < "b") << ',';
  {
    std::string js, mp;
    serializeJson(v, js);
    serializeMsgPack(v, mp);
    o << quote(js) << ',' << quote(mp) << ',' << measureJson(v) << ',' << measureJsonPretty(v) << ',' << measureMsgPack(v);
  }
  if (v.is<JsonArrayConst>()) {
    for (JsonVariantConst e : v.as<JsonArrayConst>())
      observe(o, e, depth + 1);
  } else if (v.is<JsonObjectConst>()) {
    JsonObjectConst ob = v.as<JsonObjectConst>();
    for (JsonPairConst kv : ob) {
      std::string key(kv.key().c_str(), kv.key().size());
      o << quote(key) << ':';
      observe(o, kv.value(), depth + 1);
      // key lookup through several kinds of key argument
      bool z = key.find('\0') == std::string::npos;
      o << '[' << (ob[key] == kv.value()) << (ob[std::string_view(key)] == kv.value());
      if (z)
        o << (ob[key.c_str()] == kv.value()) << (ob[JsonString(key.c_str())] == kv.value())
          << (v[key.c_str()] == kv.value());
      o << (ob[JsonString(key.data(), key.size(), JsonString::Copied)] == kv.value()) << ']';
    }
  }
  o << ')';
}

}  // namespace

std::string HistSim::observeAll() {
  std::ostringstream o;
  for (int d = 0; d < ndocs(); d++) {
    o << "doc" << d << ':';
    observe(o, docs_[size_t(d)].doc->as<JsonVariantConst>(), 0);
    o << ";ovf=" << docs_[size_t(d)].doc->overflowed() << '\n';
  }
  // pairs of live references compare the same way on both replicas
  std::vector<Ref*> live;
  for (auto& r : refs_)
    if (r.alive)
      live.push_back(&r);
  for (size_t a = 0; a < live.size() && a < 8; a++)
    for (size_t b = 0; b < live.size() && b < 8; b++) {
      JsonVariantConst x = realConst(*live[a]), y = realConst(*live[b]);
      o << (x == y) << (x < y) << (x > y) << (x <= y) << (x >= y) << (x != y) << ' ';
    }
  return o.str();
}

// ======================================================================= generation

namespace {

struct Gen {
  Rng& r;
  HistSim& sim;
  GenOpts vo;
  std::string mode;
  int csetStage = 0;    // > 0: on the way to a JsonArray::set / JsonObject::set between two distinct handles
  char csetView = 'a';

  Sel pickSel(const Val& node, bool preferExisting) {
    if (node.k == K::Obj || (node.k == K::Null && r.chance(1, 2)) || (node.k != K::Arr && r.chance(1, 3))) {
      if (node.k == K::Obj && !node.o.empty() && (preferExisting || r.chance(2, 3)))
        return Sel::k(node.o[r.below(node.o.size())].first);
      return Sel::k(genString(r, vo, true));
    }
    size_t n = node.a.size();
    if (n && (preferExisting || r.chance(2, 3)))
      return Sel::i(size_t(r.below(n)));
    return Sel::i(n + size_t(r.below(3)));
  }

  size_t pickRef(char wantView = 0, K wantKind = K::Null, bool useKind = false) {
    auto refs = sim.aliveRefs();
    std::vector<size_t> cand;
    for (size_t i = 0; i < refs.size(); i++) {
      if (wantView && refs[i]->view != wantView && !(wantView == 'v' && refs[i]->root))
        continue;
      if (useKind && sim.nodeOf(*refs[i])->k != wantKind)
        continue;
      cand.push_back(i);
    }
    if (cand.empty())
      return size_t(r.below(refs.size()));
    return cand[r.below(cand.size())];
  }

  Val scalarOrSmall() {
    if (r.chance(3, 4))
      return genScalar(r, vo);
    GenOpts small = vo;
    small.maxDepth = 2;
    small.maxWidth = 3;
    return genValue(r, small);
  }

  Op next() {
    auto refs = sim.aliveRefs();
    unsigned sel = unsigned(r.below(1000));
    if (mode == "conc" && r.chance(1, 4))
      sel = 905 + unsigned(r.below(95));  // threads mostly meet in serializers and deserializers
    Op op;
    auto via = [&](int n) { op.set("via", int64_t(r.below(uint64_t(n)))); };
    if (csetStage > 1) {
      csetStage--;
      op = mkop("tos");
      size_t h = pickRef('v');
      op.setu("h", h).set("s", pickSel(*sim.nodeOf(*refs[h]), false).text()).set("kind", std::string(1, csetView));
      return op;
    }
    if (csetStage == 1) {
      csetStage = 0;
      std::vector<std::pair<size_t, size_t>> pairs;
      for (size_t a = 0; a < refs.size() && pairs.size() < 64; a++)
        for (size_t b = 0; b < refs.size(); b++)
          if (a != b && refs[a]->view == csetView && refs[b]->view == csetView &&
              !(refs[a]->doc == refs[b]->doc && refs[a]->node == refs[b]->node))
            pairs.push_back({a, b});
      if (!pairs.empty()) {
        auto pr = pairs[r.below(pairs.size())];
        if (r.chance(1, 2)) {
          // first put something into the destination and the source, so that "replaces" and "merges" differ
          op = mkop(csetView == 'a' ? "add" : "sets");
          size_t which = r.chance(1, 2) ? pr.first : pr.second;
          op.setu("h", which).set("v", toText(genScalar(r, vo)));
          if (csetView == 'o')
            op.set("s", Sel::k(genString(r, vo, true)).text());
          via(2);
          csetStage = 1;
          return op;
        }
        op = mkop("cset");
        op.setu("h", pr.first).setu("src", pr.second);
        return op;
      }
    }
    if (r.chance(1, 25)) {
      // the same characters again, from the other kind of source (linked <-> copied)
      std::vector<std::pair<size_t, const Val*>> strs;
      for (size_t i = 0; i < refs.size(); i++) {
        const Val* n = sim.nodeOf(*refs[i]);
        if (n->k == K::Obj)
          for (auto& m : n->o)
            if (m.second.k == K::Str && m.second.s.find('\0') == std::string::npos && refs[i]->view != 'c' && refs[i]->view != 'a')
              strs.push_back({i, &m.second});
      }
      if (!strs.empty()) {
        auto& pick = strs[r.below(strs.size())];
        const Val* holder = sim.nodeOf(*refs[pick.first]);
        std::string key;
        for (auto& m : holder->o)
          if (&m.second == pick.second)
            key = m.first;
        Val nv = Val::str(pick.second->s, !pick.second->linked);
        op = mkop("sets");
        op.setu("h", pick.first).set("s", Sel::k(key).text()).set("v", toText(nv));
        via(3);
        return op;
      }
    }
    if (r.chance(1, 40)) {
      // the bytes of a raw value the documents hold, again as a copied string - or the characters of a string, again
      // as a raw value: both live in the same pool of copied strings, where only the bytes are compared
      std::vector<std::pair<std::string, bool>> held;  // bytes, is raw
      for (size_t i = 0; i < refs.size(); i++)
        visitc(*sim.nodeOf(*refs[i]), [&](const Val& x) {
          if ((x.k == K::Raw || (x.k == K::Str && !x.linked)) && !x.s.empty() && held.size() < 64)
            held.push_back({x.s, x.k == K::Raw});
        });
      if (!held.empty()) {
        auto pick = held[r.below(held.size())];
        Val nv = pick.second ? Val::str(pick.first, false) : Val::raw(pick.first);
        size_t h = pickRef('v');
        op = mkop("sets");
        op.setu("h", h).set("s", pickSel(*sim.nodeOf(*refs[h]), false).text()).set("v", toText(nv));
        via(3);
        return op;
      }
    }
    if (r.chance(1, 40)) {
      // characters the library hands out, handed back with another length (a prefix) for another member of the same object
      std::vector<std::pair<size_t, std::string>> cand;  // ref, key of a member holding a string
      for (size_t i = 0; i < refs.size() && cand.size() < 32; i++) {
        if (refs[i]->view == 'c' || refs[i]->view == 'a')
          continue;
        const Val* n = sim.nodeOf(*refs[i]);
        if (n->k == K::Obj)
          for (auto& m : n->o)
            if (m.second.k == K::Str && !m.second.s.empty())
              cand.push_back({i, m.first});
      }
      if (!cand.empty()) {
        auto pick = cand[r.below(cand.size())];
        const Val* n = sim.nodeOf(*refs[pick.first]);
        size_t len = n->member(pick.second)->s.size();
        op = mkop("feed");
        op.setu("h", pick.first).set("s", Sel::k(pick.second).text()).set("d", Sel::k(genString(r, vo, true)).text());
        op.setu("cut", r.chance(1, 4) ? len : r.below(len + 1)).set("kind", int64_t(r.below(2)));
        return op;
      }
    }
    if (r.chance(1, 30)) {
      // a string related by an embedded NUL to one a document already holds: its prefix up to the first NUL,
      // or the same characters followed by a NUL and more (lookups that stop at a NUL confuse the two)
      std::vector<std::string> held;
      for (size_t i = 0; i < refs.size(); i++)
        visitc(*sim.nodeOf(*refs[i]), [&](const Val& x) {
          if (x.k == K::Str && held.size() < 64)
            held.push_back(x.s);
          for (auto& m : x.o)
            if (held.size() < 64)
              held.push_back(m.first);
        });
      if (!held.empty()) {
        std::string base = held[r.below(held.size())];
        size_t nul = base.find('\0');
        std::string ns = nul != std::string::npos ? base.substr(0, nul) : base + std::string(1, '\0') + (r.chance(1, 2) ? "tail" : "");
        size_t h = pickRef('v');
        op = mkop("sets");
        op.setu("h", h).set("s", pickSel(*sim.nodeOf(*refs[h]), false).text()).set("v", toText(Val::str(ns, false)));
        via(3);
        return op;
      }
    }
    if (mode == "limit" && r.chance(1, 8)) {
      op = mkop("longset");
      static const char* wh[] = {"value", "value", "key"};
      op.setu("h", pickRef('v')).set("over", r.range(-2, 2)).set("where", wh[r.below(3)]).set("chunk", r.range(0, 40));
      via(3);
      return op;
    }
    if (r.chance(1, 30)) {
      op = mkop("peek");
      size_t h = pickRef('v');
      const Val* n = sim.nodeOf(*refs[h]);
      Sel s1 = pickSel(*n, true);
      Val none;
      const Val* mid = &none;
      if (s1.isKey && n->k == K::Obj && n->member(s1.key))
        mid = n->member(s1.key);
      if (!s1.isKey && n->k == K::Arr && s1.idx < n->a.size())
        mid = &n->a[s1.idx];
      op.setu("h", h).set("s1", s1.text()).set("s2", pickSel(*mid, r.chance(2, 3)).text());
      via(2);
      return op;
    }
    if (r.chance(1, 50)) {
      op = mkop("each");
      size_t h = r.chance(1, 2) ? pickRef(0, K::Arr, true) : pickRef(0, K::Obj, true);
      op.setu("h", h).set("v", toText(genScalar(r, vo)));
      return op;
    }
    if (sel < 150) {
      op = mkop("sets");
      size_t h = pickRef();
      const Val* n = sim.nodeOf(*refs[h]);
      op.setu("h", h).set("s", pickSel(*n, false).text()).set("v", toText(scalarOrSmall()));
      via(3);
      if (r.chance(1, 6))
        op.set("vk", 1);  // the key / index is handed over as a value of another document
    } else if (sel < 250) {
      op = mkop("add");
      size_t h = r.chance(3, 4) ? pickRef(0, K::Arr, true) : pickRef();
      op.setu("h", h).set("v", toText(scalarOrSmall()));
      via(2);
    } else if (sel < 300) {
      op = mkop("addn");
      size_t h = r.chance(3, 4) ? pickRef(0, K::Arr, true) : pickRef();
      static const char* kinds[] = {"a", "o", "v"};
      op.setu("h", h).set("kind", kinds[r.below(3)]);
      via(2);
    } else if (sel < 360) {
      op = mkop("set");
      Val v = genValue(r, vo);
      op.setu("h", pickRef('v')).set("v", toText(v)).set("src", int64_t(r.below(3)));
    } else if (sel < 410) {
      op = mkop("set2");
      size_t h = pickRef('v');
      const Val* n = sim.nodeOf(*refs[h]);
      Sel s1 = pickSel(*n, false);
      Val none;
      const Val* mid = &none;
      if (s1.isKey && n->k == K::Obj && n->member(s1.key))
        mid = n->member(s1.key);
      if (!s1.isKey && n->k == K::Arr && s1.idx < n->a.size())
        mid = &n->a[s1.idx];
      op.setu("h", h).set("s1", s1.text()).set("s2", pickSel(*mid, false).text()).set("v", toText(genScalar(r, vo)));
      via(2);
    } else if (sel < 450) {
      op = mkop("to");
      static const char* kinds[] = {"a", "o", "v"};
      op.setu("h", pickRef('v')).set("kind", kinds[r.below(3)]);
      via(2);
    } else if (sel < 490) {
      op = mkop("tos");
      size_t h = pickRef('v');
      static const char* kinds[] = {"a", "o", "v"};
      op.setu("h", h).set("s", pickSel(*sim.nodeOf(*refs[h]), false).text()).set("kind", kinds[r.below(3)]);
    } else if (sel < 610) {
      op = mkop("rem");
      size_t h = r.chance(4, 5) ? (r.chance(1, 2) ? pickRef(0, K::Arr, true) : pickRef(0, K::Obj, true)) : pickRef();
      op.setu("h", h).set("s", pickSel(*sim.nodeOf(*refs[h]), r.chance(5, 6)).text());
      via(5);
    } else if (sel < 640) {
      op = mkop("clr");
      op.setu("h", pickRef());
    } else if (sel < 720) {
      op = mkop("copy");
      size_t dst = pickRef('v'), src = pickRef();
      for (int tries = 0; tries < 3 && src == dst; tries++)
        src = pickRef();
      op.setu("h", dst).setu("src", src);
      via(3);
    } else if (sel < 745) {
      op = mkop("cset");
      // two handles of the same type designating different values, if the table has such a pair
      std::vector<std::pair<size_t, size_t>> pairs;
      for (size_t a = 0; a < refs.size() && pairs.size() < 64; a++)
        for (size_t b = 0; b < refs.size(); b++)
          if (a != b && (refs[a]->view == 'a' || refs[a]->view == 'o') && refs[a]->view == refs[b]->view &&
              !(refs[a]->doc == refs[b]->doc && refs[a]->node == refs[b]->node))
            pairs.push_back({a, b});
      if (!pairs.empty() && r.chance(9, 10)) {
        auto pr = pairs[r.below(pairs.size())];
        op.setu("h", pr.first).setu("src", pr.second);
      } else if (r.chance(1, 4)) {
        char view = r.chance(1, 2) ? 'a' : 'o';
        op.setu("h", pickRef(view)).setu("src", pickRef(view));
      } else {
        // no such pair yet: make two typed handles (new nested arrays / objects reached through a proxy), give one
        // some content, then come back (see the top of next())
        csetView = r.chance(1, 2) ? 'a' : 'o';
        csetStage = 3;
        return next();
      }
    } else if (sel < 830) {
      op = mkop("take");
      size_t h = pickRef();
      static const char* views[] = {"v", "a", "o", "c", "v"};
      op.setu("h", h).set("s", pickSel(*sim.nodeOf(*refs[h]), true).text()).set("view", views[r.below(5)]);
    } else if (sel < 845) {
      op = mkop("drop");
      op.setu("h", r.below(refs.size()));
    } else if (sel < 905) {
      op = mkop("doc");
      static const char* whats[] = {"clear", "shrink", "copy", "move", "swap", "cctor", "mctor", "new", "set", "shrink", "copy", "set", "fromv"};
      std::string w = whats[r.below(13)];
      if (sim.ndocs() == 1 && (w == "move" || w == "swap" || w == "cctor" || w == "mctor" || w == "fromv"))
        w = "shrink";
      op.set("what", w).setu("d", r.below(uint64_t(sim.ndocs()))).setu("s", r.below(uint64_t(sim.ndocs())));
      if (w == "set" || w == "fromv")
        op.setu("src", pickRef());
      via(2);
    } else if (sel < 950) {
      op = mkop("deser");
      GenOpts dv = vo;
      dv.allowRaw = false;
      dv.allowBin = false;
      dv.allowLinked = false;
      bool mp = r.chance(1, 2);
      dv.allowNonFinite = true;  // JSON: written as null, or NaN/Infinity where the build's dialect has them
      dv.allowBin = mp;
      dv.malformedBin = false;  // the value travels as MessagePack: it has to be well-formed
      dv.maxDepth = 3;
      Val v = genValue(r, dv);
      size_t h = pickRef();
      op.setu("h", h).set("fmt", mp ? "mp" : "json").set("v", toText(v)).set("rk", int64_t(r.below(5)));
      if (r.chance(1, 3))
        op.set("s", pickSel(*sim.nodeOf(*refs[h]), false).text());
      via(2);
    } else if (mode == "conc" && sel < 968) {
      op = mkop("shr");
      static const char* whats[] = {"copy", "filter", "ser", "cmp"};
      op.setu("h", pickRef('v')).set("what", whats[r.below(4)]);
      if (r.chance(1, 2))
        op.setu("k", r.below(8));
      GenOpts dv = vo;
      dv.allowRaw = dv.allowBin = dv.allowLinked = false;
      dv.maxDepth = 3;
      op.set("v", toText(genValue(r, dv)));
    } else if (sel < 985) {
      op = mkop("ser");
      static const char* fmts[] = {"json", "pretty", "mp"};
      op.setu("h", pickRef()).set("fmt", fmts[r.below(3)]);
    } else {
      op = mkop("cmp");
      op.setu("h", pickRef()).setu("src", pickRef());
    }
    return op;
  }
};

Options optionsFromHead(const Op& head) {
  Options o;
  o.mode = head.str("mode", "free");
  o.ndocs = int(head.num("docs", 1));
  o.shareAlloc = head.num("share", 0) != 0;
  o.moveRealloc = head.num("move", 1) != 0;
  o.inspect = head.num("inspect", 1) != 0;
  o.srcSeed = head.unum("srcseed", 1);
  o.skipKnown = head.num("skipknown", 1) != 0;
  o.bernDen = unsigned(head.unum("bern", 0));
  o.bernSeed = head.unum("bseed", 0);
  // operation signatures recorded in /verif/known_findings.jsonl (see DESIGN §3.9); the
  // list is compiled in so that the executor and the plan are the whole story
  static const char* known[] = {
      "copy:self:owned-string", "copy:self:container", "copy:src-inside-dst:owned-string",
      "copy:src-inside-dst:container", "copy:dst-inside-src:container", "cset:self",
      "cset:src-inside-dst", "cset:dst-inside-src", "docset:self", "docset:own-descendant",
      "ovf:shrink-burnt-pool-ids",
  };
  for (auto k : known)
    o.known.insert(k);
  if (head.has("unskip"))
    o.known.erase(head.str("unskip"));
  return o;
}

}  // namespace

// Bounded-exhaustive short histories: run index r designates the r-th sequence (shortest first)
// over a fixed alphabet of concrete operations on one document. References are taken modulo the
// live table, so every sequence is executable.
static const char* kEnumAlphabet[] = {
    "op=addn h=0 kind=a via=0",
    "op=addn h=0 kind=o via=1",
    "op=add h=0 v=u1 via=0",
    "op=add h=1 v=s\"x\" via=0",
    "op=add h=1 v=i-5000000000 via=0",
    "op=sets h=0 s=k\"a\" v=u2 via=0",
    "op=sets h=0 s=k\"a\" v=s\"x\" via=1",
    "op=sets h=1 s=k\"b\" v=[u1,s\"x\"] via=0",
    "op=sets h=0 s=i2 v=D3ff199999999999a via=0",
    "op=rem h=0 s=i0 via=0",
    "op=rem h=0 s=k\"a\" via=0",
    "op=rem h=1 s=i0 via=2",
    "op=clr h=1",
    "op=to h=0 kind=o via=0",
    "op=tos h=0 s=k\"a\" kind=a",
    "op=take h=0 s=i0 view=v",
    "op=take h=0 s=k\"a\" view=a",
    "op=copy h=1 src=2 via=0",
    "op=copy h=0 src=1 via=1",
    "op=doc what=shrink d=0 s=0",
    "op=doc what=clear d=0 s=0",
    "op=doc what=copy d=0 s=0",
    "op=deser h=1 fmt=json v=[u1,{\"k\":n}] rk=0 via=0",
    "op=ser h=0 fmt=json",
};
static const uint64_t kEnumA = sizeof kEnumAlphabet / sizeof *kEnumAlphabet;

static Plan generateEnum(uint64_t seed, uint64_t run) {
  Plan p;
  p.head.set("family", "hist").set("mode", "enum").setu("seed", seed).setu("run", run);
  p.head.set("docs", 1).set("share", 0).set("move", 1).setu("srcseed", 7);
  uint64_t len = 1, block = kEnumA, r = run;
  while (r >= block && len < 8) {
    r -= block;
    block *= kEnumA;
    len++;
  }
  for (uint64_t j = 0; j < len; j++) {
    p.ops.push_back(Op::parse(kEnumAlphabet[r % kEnumA]));
    r /= kEnumA;
  }
  return p;
}

Plan generate(const std::string& mode, uint64_t seed, uint64_t run) {
  if (mode == "enum")
    return generateEnum(seed, run);
  Rng r(seed);
  Plan p;
  p.head.set("family", "hist").set("mode", mode).setu("seed", seed).setu("run", run);
  int ndocs = int(r.range(1, 3));
  bool limitFault = mode == "limitfault";
  if (mode == "limit" || limitFault)
    ndocs = 1;
  p.head.set("docs", ndocs);
  p.head.set("share", r.chance(1, 4) ? 1 : 0);
  p.head.set("move", r.chance(3, 4) ? 1 : 0);
  p.head.setu("srcseed", r.next() & 0xFFFFFFFF);
  Options o = optionsFromHead(p.head);
  HistSim sim(o, nullptr, false);
  Gen g{r, sim, GenOpts(), mode};
  g.vo.allowRaw = true;
  g.vo.allowBin = true;
  g.vo.malformedBin = true;
  g.vo.allowLinked = true;
  g.vo.maxDepth = 3;
  g.vo.maxWidth = 4;
  g.vo.maxStr = 40;
  size_t nops;
  if (mode == "fault" || mode == "faultenum" || mode == "faultrand")
    nops = size_t(r.range(3, 25));
  if (mode == "faultrand") {
    // random multi-failure subsets: every failable call fails with probability 1/bern
    static const unsigned dens[] = {2, 3, 5, 10, 25};
    p.head.set("bern", dens[r.below(5)]).setu("bseed", r.next() & 0xFFFFFF);
  }
  else
    nops = r.chance(1, 5) ? size_t(r.range(40, 80)) : size_t(r.range(5, 40));
  if (mode == "soak") {
    // long histories with repetition: a block of 2-8 operations is generated once and then run 5-60 times over
    // (references are taken modulo the live table, so the same text stays executable as the state moves on),
    // several blocks per plan, 150-600 operations in all. Judged like `free`.
    p.head.set("mode", "free");
    g.vo.maxDepth = 2;
    g.vo.maxWidth = 3;
    size_t total = size_t(r.range(150, 600));
    while (p.ops.size() < total) {
      size_t blockLen = size_t(r.range(2, 8));
      size_t reps = size_t(r.range(5, 60));
      std::vector<Op> block;
      for (size_t i = 0; i < blockLen; i++) {
        Op op = g.next();
        // what grows must shrink: removals and clears get a boost inside blocks
        if (r.chance(1, 4)) {
          op = mkop(r.chance(2, 3) ? "rem" : "doc");
          if (op.name() == "rem") {
            auto refs = sim.aliveRefs();
            size_t h = g.pickRef();
            op.setu("h", h).set("s", g.pickSel(*sim.nodeOf(*refs[h]), true).text()).set("via", int64_t(r.below(5)));
          } else {
            static const char* whats[] = {"clear", "shrink", "shrink", "copy", "swap"};
            std::string w = whats[r.below(sim.ndocs() > 1 ? 5 : 3)];
            op.set("what", w).setu("d", r.below(uint64_t(sim.ndocs()))).setu("s", r.below(uint64_t(sim.ndocs()))).set("via", 0);
          }
        }
        block.push_back(op);
      }
      bool tooBig = false;
      for (size_t k = 0; k < reps && p.ops.size() < total && !tooBig; k++)
        for (auto& op : block) {
          sim.step(op, p.ops.size());
          p.ops.push_back(op);
          // a block that copies a document into itself doubles it every time round: keep the documents small
          // (the generator's model is the measure; 3000 values is far beyond what the small builds hold anyway)
          size_t nodes = 0;
          for (int d = 0; d < sim.ndocs(); d++)
            visitc(sim.model(d), [&](const Val&) { nodes++; });
          if (nodes > 3000) {
            for (int d = 0; d < sim.ndocs(); d++) {
              Op clr = mkop("doc");
              clr.set("what", "clear").setu("d", uint64_t(d)).setu("s", uint64_t(d)).set("via", 0);
              sim.step(clr, p.ops.size());
              p.ops.push_back(clr);
            }
            tooBig = true;
            break;
          }
        }
    }
    return p;
  }
  if (limitFault) {
    // the way to the slot limit with one allocation failing on it (every position in turn, see execute()):
    // the failed pool must not come back in a shape that hands out ids the document cannot address
    p.head.set("mode", "faultenum");
    static const char* kinds[] = {"int", "big", "int"};
    Op prep = mkop("to");
    prep.setu("h", 0).set("kind", "a").set("via", 0);
    p.ops.push_back(prep);
    sim.step(prep, 0);
    Op fill = mkop("fill");
    fill.setu("h", 0).setu("n", 0).set("kind", kinds[r.below(3)]).set("extra", r.range(0, 5));
    p.ops.push_back(fill);
    Op more = mkop("fill");
    more.setu("h", 0).setu("n", uint64_t(r.range(1, 4))).set("kind", "int");
    p.ops.push_back(more);
    nops = size_t(r.range(0, 3));
    Gen g2{r, sim, g.vo, "limit"};
    for (size_t i = 0; i < nops; i++) {
      Op op = g2.next();
      size_t ix = p.ops.size();
      sim.step(op, ix);
      p.ops.push_back(op);
    }
    return p;
  }
  if (mode == "limit") {
    // reach the slot limit, then keep working at the edge
    static const char* kinds[] = {"int", "big", "str", "carr"};
    std::string kind = kinds[r.below(4)];
    Op prep = mkop("to");
    prep.setu("h", 0).set("kind", "a").set("via", 0);
    p.ops.push_back(prep);
    sim.step(prep, 0);
    Op fill = mkop("fill");
    if (r.chance(1, 4)) {
      // more users of one copied string than an 8- or 16-bit counter can hold, then one user less:
      // reference counts must not wrap (they are as wide as slot ids)
      static const uint64_t counts[] = {256, 257, 258, 513, 65536, 65537, 65538};
      uint64_t n = counts[r.below(r.chance(1, 6) ? 7 : 4)];
      fill.setu("h", 0).setu("n", n).set("kind", "same");
      p.ops.push_back(fill);
      Op rem = mkop("rem");
      rem.setu("h", 0).set("s", "i" + std::to_string(r.below(3))).set("via", 0);
      p.ops.push_back(rem);
      if (r.chance(1, 2)) {
        Op add = mkop("add");
        add.setu("h", 0).set("v", "s\"another string of similar size\"").set("via", 0);
        p.ops.push_back(add);
      }
      nops = size_t(r.range(1, 8));
    } else {
      fill.setu("h", 0).setu("n", 0).set("kind", kind);  // n=0: "as many as the slot space holds, plus a few"
      fill.set("extra", r.range(0, 5));
      p.ops.push_back(fill);
      nops = size_t(r.range(3, 20));
    }
  }
  for (size_t i = 0; i < nops; i++) {
    Op op = g.next();
    size_t ix = p.ops.size();
    sim.step(op, ix);
    p.ops.push_back(op);
  }
  return p;
}

// ======================================================================= execution

namespace {

struct RunResult {
  uint64_t hash = 0;
  uint64_t obs = 0;
  uint64_t steps = 0;
  uint64_t executedOps = 0;
  std::vector<uint64_t> failable;  // per op, fault-free run
};

void resolveFill(const Options& o, Op& op) {
  (void)o;
  if (op.name() == "fill" && op.unum("n") == 0) {
    // as many elements as slot ids exist (255 / 65535), plus the plan's extra; for 4-byte ids
    // the limit is out of reach and a token amount is used instead
    size_t limit = size_t(verif::Inspector::NULLSLOT);
    size_t per = op.str("kind") == "big" || op.str("kind") == "carr" ? 2 : 1;
    // (4-byte ids: 2300 slots are enough to move the pool table to the heap and grow it there twice)
    size_t n = limit > 70000 ? 2300 / per : limit / per + size_t(op.num("extra"));
    op.setu("n", n);
  }
}

RunResult runOnce(const Plan& plan, const Options& o, char replica, std::string* observations) {
  Transcript t;
  Options oo = o;
  oo.replica = replica;
  g_ledger.reset();
  HistSim sim(oo, &t, true);
  RunResult rr;
  for (size_t i = 0; i < plan.ops.size(); i++) {
    Op op = plan.ops[i];
    resolveFill(oo, op);
    sim.step(op, i);
    rr.failable.push_back(sim.failableInLastOp());
    if (sim.lastSkip.empty())
      rr.executedOps++;
    if (observations) {
      observations->append(sim.observeAll());
      observations->push_back('\x1e');
    }
  }
  sim.finish();
  rr.hash = t.h;
  rr.obs = sim.obsInvalid ? 0 : sim.obs.h;
  rr.steps = t.events;
  return rr;
}

}  // namespace

Options optionsOf(const Op& head) {
  return optionsFromHead(head);
}

uint64_t runForObs(const Plan& plan, const Options& o) {
  return runOnce(plan, o, 0, nullptr).obs;
}

Outcome execute(const Plan& plan) {
  Options o = optionsFromHead(plan.head);
  Outcome out;
  try {
    if (o.mode == "twin") {
      // three replicas, same operations: strings offered linked wherever possible (L), through copied
      // kinds only (C), and mixed as the plan says (M). In M the buffer of a linked string is released
      // as soon as no value refers to it any more.
      Transcript tl, tc, tm;
      Options ol = o, oc = o, om = o;
      ol.replica = 'L';
      oc.replica = 'C';
      oc.instBase = 1000;
      om.replica = 'M';
      om.instBase = 2000;
      g_ledger.reset();
      HistSim L(ol, &tl, true), C(oc, &tc, true), M(om, &tm, true);
      for (size_t i = 0; i < plan.ops.size(); i++) {
        L.step(plan.ops[i], i);
        C.step(plan.ops[i], i);
        M.step(plan.ops[i], i);
        std::string a = L.observeAll(), b = C.observeAll();
        std::string m = M.observeAll();
        if (m != b) {
          size_t p = 0;
          while (p < m.size() && p < b.size() && m[p] == b[p])
            p++;
          size_t from = p > 60 ? p - 60 : 0;
          violate("C14:replica-divergence", "after op #" + std::to_string(i) + " (" + plan.ops[i].text().substr(0, 100) +
                                                ") mixed and copied replicas differ: M=…" + m.substr(from, 140) + " C=…" +
                                                b.substr(from, 140));
        }
        if (a != b) {
          size_t p = 0;
          while (p < a.size() && p < b.size() && a[p] == b[p])
            p++;
          size_t from = p > 60 ? p - 60 : 0;
          violate("C14:replica-divergence", "after op #" + std::to_string(i) + " (" + plan.ops[i].text().substr(0, 100) +
                                                ") linked and copied replicas differ: L=…" + a.substr(from, 140) + " C=…" +
                                                b.substr(from, 140));
        }
        count("twin.observations");
        out.steps++;
      }
      L.finish();
      C.finish();
      M.finish();
      out.hash = tl.h;
      return out;
    }
    RunResult base = runOnce(plan, o, 0, nullptr);
    out.hash = base.hash;
    out.obs = base.obs;
    out.steps = base.steps;
    out.nontrivial = base.executedOps >= 3;
    if (o.mode == "faultenum") {
      // every single-failure position and every fail-from position of every operation
      for (size_t i = 0; i < plan.ops.size(); i++) {
        // (a fill on the way to the slot limit asks for every pool there is: up to 255 + the growth of the table)
        uint64_t cap = plan.ops[i].name() == "fill" ? 300 : 64;
        for (uint64_t k = 1; k <= base.failable[i] && k <= cap; k++) {
          for (int from = 0; from < 2; from++) {
            Plan q = plan;
            q.head.set("mode", "fault");
            q.ops[i].setu(from ? "ff" : "fa", k);
            count(from ? "fault.positions_from" : "fault.positions_single");
            try {
              runOnce(q, optionsFromHead(q.head), 0, nullptr);
            } catch (Violation& v) {
              v.msg += "  [fault plan: op #" + std::to_string(i) + (from ? " ff=" : " fa=") + std::to_string(k) + "]";
              Outcome f;
              f.ok = false;
              f.cls = v.cls;
              f.msg = v.msg;
              // the derived single-fault plan is what gets replayed
              f.msg += "\n#DERIVED-PLAN\n" + q.text();
              return f;
            }
          }
        }
      }
    }
  } catch (const Violation& v) {
    out.ok = false;
    out.cls = v.cls;
    out.msg = v.msg;
  }
  return out;
}

}  // namespace hist
}  // namespace sim
