// Simulated allocator: the seam through which the library obtains all memory.
#pragma once
#include "aj.hpp"

#include <map>
#include <algorithm>
#include <set>

#include "kernel.hpp"

namespace sim {

struct Block {
  uint64_t id;
  size_t size;
  int owner;  // SimAllocator instance number
};

// One ledger for all allocator instances of a run, so that a block released through the
// wrong allocator, twice, or never, is an error rather than a hope that ASan notices.
struct Ledger {
  std::map<const void*, Block> live;  // lookup only; never iterated to decide anything
  uint64_t nextId = 1;
  void reset() {
    live.clear();
    nextId = 1;
  }
};
extern thread_local Ledger g_ledger;  // per thread: a task's blocks are allocated and released by that task

struct FaultPlan {
  // positions count *failable* calls (allocate, growing reallocate), 1-based
  std::set<uint64_t> failAt;   // within the current operation
  uint64_t failFrom = 0;       // within the current operation; 0 = off
  uint64_t gFailFrom = 0;      // global position from which every failable call fails; 0 = off
  std::set<uint64_t> gFailAt;  // global positions
  unsigned bernoulliNum = 0, bernoulliDen = 0;
  Rng rng{0};
  void clearOp() {
    failAt.clear();
    failFrom = 0;
  }
};

class SimAllocator final : public ArduinoJson::Allocator {
 public:
  static constexpr size_t hugeLimit = size_t(256) << 20;

  explicit SimAllocator(int instance = 0, Transcript* t = nullptr) : inst_(instance), t_(t) {}

  // ---- configuration
  bool moveOnRealloc = true;  // a reallocate always returns a different block
  FaultPlan faults;
  bool logToTranscript = true;

  // ---- counters
  uint64_t nAllocate = 0, nReallocate = 0, nDeallocate = 0;
  uint64_t nFailable = 0;     // since construction
  uint64_t nFailableOp = 0;   // since beginOp()
  uint64_t nFaultsFired = 0;
  uint64_t nFaultsFiredOp = 0;
  uint64_t nMoves = 0;
  uint64_t nHugeRefused = 0;
  size_t liveBytes = 0, peakLive = 0, totalRequested = 0, maxRequest = 0;
  size_t liveBlocks = 0;
  uint64_t calls() const {
    return nAllocate + nReallocate + nDeallocate;
  }
  void beginOp() {
    nFailableOp = 0;
    nFaultsFiredOp = 0;
  }
  void resetPeak() {
    peakLive = liveBytes;
    totalRequested = 0;
    maxRequest = 0;
  }

  int instance() const {
    return inst_;
  }

  // ---- ArduinoJson::Allocator
  void* allocate(size_t n) override {
    nAllocate++;
    noteRequest(n);
    bool fail = decideFault();
    if (n >= hugeLimit) {
      nHugeRefused++;
      fail = true;
    }
    log('A', n, fail ? 0 : g_ledger.nextId);
    if (fail)
      return nullptr;
    return fresh(n);
  }

  void deallocate(void* p) override {
    nDeallocate++;
    if (!p) {
      // free(NULL) is harmless for the default allocator, but the library never does it
      count("alloc.dealloc_null");
      log('D', 0, 0);
      return;
    }
    Block b = take(p, "deallocate");
    log('D', b.size, b.id);
    release(p, b);
  }

  void* reallocate(void* p, size_t n) override {
    nReallocate++;
    if (!p) {
      // realloc(NULL, n) behaves like malloc(n)
      noteRequest(n);
      bool failn = decideFault();
      if (n >= hugeLimit) {
        nHugeRefused++;
        failn = true;
      }
      log('R', n, failn ? 0 : g_ledger.nextId);
      return failn ? nullptr : fresh(n);
    }
    auto it = g_ledger.live.find(p);
    if (it == g_ledger.live.end())
      violate("C06:realloc-unknown-block", "reallocate() of a pointer that is not a live block");
    if (it->second.owner != inst_)
      violate("C06:wrong-allocator", "reallocate() through allocator #" + std::to_string(inst_) +
                                         " of a block owned by #" + std::to_string(it->second.owner));
    size_t old = it->second.size;
    bool grows = n > old;
    bool fail = false;
    if (grows) {
      noteRequest(n - old);
      fail = decideFault();
      if (n >= hugeLimit) {
        nHugeRefused++;
        fail = true;
      }
    }
    if (fail) {
      log('R', n, 0);
      return nullptr;  // the old block stays valid, as with realloc()
    }
    if (!moveOnRealloc && !grows) {
      // shrink in place: same address, smaller bookkeeping size
      liveBytes -= old - n;
      it->second.size = n;
      log('r', n, it->second.id);
      return p;
    }
    Block b = it->second;
    void* q = fresh(n);
    memcpy(q, p, old < n ? old : n);
    g_ledger.live.erase(p);
    liveBytes -= b.size;
    liveBlocks--;
    memset(p, 0xDD, b.size);
    free(p);
    nMoves++;
    count("fault.realloc_moved");
    log('R', n, g_ledger.live[q].id);
    return q;
  }

  // blocks still owned by this instance (sorted by id: deterministic)
  std::vector<Block> liveOwned() const {
    std::vector<Block> v;
    for (auto& e : g_ledger.live)
      if (e.second.owner == inst_)
        v.push_back(e.second);
    std::sort(v.begin(), v.end(), [](const Block& a, const Block& b) { return a.id < b.id; });
    return v;
  }

  void expectEmpty(const char* cls, const std::string& when) const {
    auto v = liveOwned();
    if (!v.empty()) {
      std::string m = when + ": " + std::to_string(v.size()) + " block(s) still live on allocator #" +
                      std::to_string(inst_) + ":";
      for (size_t j = 0; j < v.size() && j < 6; j++)
        m += " #" + std::to_string(v[j].id) + "(" + std::to_string(v[j].size) + "B)";
      violate(cls, m);
    }
  }

  // harness cleanup after a violation (keeps LeakSanitizer and later runs quiet)
  void forgetAll() {
    for (auto it = g_ledger.live.begin(); it != g_ledger.live.end();) {
      if (it->second.owner == inst_) {
        free(const_cast<void*>(it->first));
        it = g_ledger.live.erase(it);
      } else {
        ++it;
      }
    }
    liveBytes = 0;
    liveBlocks = 0;
  }

 private:
  void noteRequest(size_t n) {
    totalRequested += n;
    if (n > maxRequest)
      maxRequest = n;
  }
  bool decideFault() {
    nFailable++;
    nFailableOp++;
    bool f = false;
    if (faults.failAt.count(nFailableOp))
      f = true;
    if (faults.failFrom && nFailableOp >= faults.failFrom)
      f = true;
    if (faults.gFailAt.count(nFailable))
      f = true;
    if (faults.gFailFrom && nFailable >= faults.gFailFrom)
      f = true;
    if (faults.bernoulliDen && faults.rng.chance(faults.bernoulliNum, faults.bernoulliDen))
      f = true;
    if (f) {
      nFaultsFired++;
      nFaultsFiredOp++;
    }
    return f;
  }
  void* fresh(size_t n) {
    void* p = malloc(n ? n : 1);
    if (!p)
      throw HarnessError("host malloc failed");
    memset(p, 0xA5, n ? n : 1);  // nothing may rely on zeroed memory
    Block b{g_ledger.nextId++, n, inst_};
    g_ledger.live[p] = b;
    liveBytes += n;
    liveBlocks++;
    if (liveBytes > peakLive)
      peakLive = liveBytes;
    return p;
  }
  Block take(void* p, const char* what) {
    auto it = g_ledger.live.find(p);
    if (it == g_ledger.live.end())
      violate("C06:release-unknown-block",
              std::string(what) + "() of a pointer that is not a live block (double release or foreign pointer)");
    if (it->second.owner != inst_)
      violate("C06:wrong-allocator", std::string(what) + "() through allocator #" + std::to_string(inst_) +
                                         " of a block owned by #" + std::to_string(it->second.owner));
    return it->second;
  }
  void release(void* p, const Block& b) {
    g_ledger.live.erase(p);
    liveBytes -= b.size;
    liveBlocks--;
    memset(p, 0xDD, b.size ? b.size : 1);
    free(p);  // ASan quarantines it: any later touch is reported
  }
  void log(char kind, size_t n, uint64_t id) {
    if (t_ && logToTranscript) {
      t_->u((uint64_t(kind) << 56) ^ (uint64_t(inst_) << 48) ^ uint64_t(n));
      t_->u(id);
    }
  }

  int inst_;
  Transcript* t_;
};

}  // namespace sim
