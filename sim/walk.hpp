// Canonical walk: reads a value back through the public read API only, and checks that
// the different read paths (is<T>, as<T>, size, nesting, iteration, index, key lookup)
// agree with each other. The result is a model value to compare with the reference model.
#pragma once
#include "aj.hpp"

#include "value.hpp"

namespace sim {

using ArduinoJson::JsonArrayConst;
using ArduinoJson::JsonObjectConst;
using ArduinoJson::JsonString;
using ArduinoJson::JsonVariantConst;


struct WalkOpts {
  const char* cls = "C04:walk-inconsistent";
  bool lookups = true;  // also look every key / index up (quadratic, keep for small values)
  size_t maxNodes = 200000;
};

inline void walkFail(const WalkOpts& o, const std::string& m) {
  violate(o.cls, m);
}

inline Val extract(JsonVariantConst v, const WalkOpts& o, size_t& budget, int depth = 0) {
  if (budget == 0)
    walkFail(o, "walk: more nodes than the budget allows (cycle?)");
  budget--;
  if (depth > 300)
    walkFail(o, "walk: depth > 300 (cycle?)");

  bool isNull = v.isNull();
  bool isBool = v.is<bool>();
  bool isArr = v.is<JsonArrayConst>();
  bool isObj = v.is<JsonObjectConst>();
  bool isStr = v.is<const char*>();
  bool isI64 = v.is<int64_t>();
  bool isU64 = v.is<uint64_t>();
  bool isFlt = v.is<double>();  // true for every number
  bool isRaw = false;

  int kinds = int(isNull) + int(isBool) + int(isArr) + int(isObj) + int(isStr) + int(isFlt);
  if (kinds == 0) {
    // raw values answer false to everything; they are observable through serialization only
    isRaw = true;
  }
  if (kinds > 1)
    walkFail(o, "walk: value answers true to several kinds");
  if ((isI64 || isU64) && !isFlt)
    walkFail(o, "walk: is<integer> without is<double>");
  if (v.is<JsonString>() != isStr)
    walkFail(o, "walk: is<JsonString> != is<const char*>");
  if (v.is<float>() != isFlt)
    walkFail(o, "walk: is<float> != is<double>");

  if (isNull) {
    if (v.size() != 0 || v.nesting() != 0)
      walkFail(o, "walk: null with size/nesting");
    return Val::null();
  }
  if (isBool)
    return Val::boolean(v.as<bool>());
  if (isFlt) {
    if (isU64)
      return Val::uinteger(v.as<uint64_t>());
    if (isI64)
      return Val::integer(v.as<int64_t>());
#if ARDUINOJSON_USE_DOUBLE
    double d = v.as<double>();
    float f = v.as<float>();
    Val r = Val::dbl(d, true);
    if (r.k == K::Float && !(floatBits(r.f) == floatBits(f) || (f != f && r.f != r.f)))
      walkFail(o, "walk: as<float>() disagrees with as<double>()");
    return r;
#else
    return Val::flt(v.as<float>());
#endif
  }
  if (isStr) {
    JsonString s = v.as<JsonString>();
    if (s.isNull())
      walkFail(o, "walk: string with null data");
    const char* p = v.as<const char*>();
    if (p != s.c_str())
      walkFail(o, "walk: as<const char*> != as<JsonString>().c_str()");
    if (p[s.size()] != 0)
      walkFail(o, "walk: string not NUL-terminated at size()");
    std::string bytes(s.c_str(), s.size());
    if (v.as<std::string>() != bytes)
      walkFail(o, "walk: as<std::string> differs");
    if (v.size() != 0 || v.nesting() != 0)
      walkFail(o, "walk: string with size/nesting");
    return Val::str(bytes, s.isLinked());
  }
  if (isRaw) {
    // the only way to see a raw value is to serialize it; compact JSON writes it verbatim
    std::string out;
    serializeJson(v, out);
    return Val::raw(out);
  }
  if (isArr) {
    JsonArrayConst a = v.as<JsonArrayConst>();
    Val r = Val::arr();
    size_t n = 0;
    for (JsonVariantConst e : a) {
      r.a.push_back(extract(e, o, budget, depth + 1));
      n++;
      if (n > o.maxNodes)
        walkFail(o, "walk: array iteration does not end");
    }
    if (a.size() != n || v.size() != n)
      walkFail(o, "walk: array size() " + std::to_string(v.size()) + " != iterated " + std::to_string(n));
    if (o.lookups && n <= 64) {
      for (size_t j = 0; j < n; j++) {
        size_t b2 = 1000000;
        WalkOpts o2 = o;
        o2.lookups = false;
        Val e = extract(a[j], o2, b2, depth + 1);
        if (!sameValue(e, r.a[j]))
          walkFail(o, "walk: a[" + std::to_string(j) + "] differs from iteration");
      }
      if (!a[n].isNull() || !v[n].isNull())
        walkFail(o, "walk: a[size] is not null");
    }
    if (v.nesting() != r.nesting())
      walkFail(o, "walk: nesting() " + std::to_string(v.nesting()) + " != " + std::to_string(r.nesting()));
    return r;
  }
  // object
  JsonObjectConst ob = v.as<JsonObjectConst>();
  Val r = Val::obj();
  size_t n = 0;
  for (ArduinoJson::JsonPairConst kv : ob) {
    JsonString k = kv.key();
    if (k.isNull())
      walkFail({"C05:member-without-key", o.lookups, o.maxNodes}, "walk: object member without a key");
    if (k.c_str()[k.size()] != 0)
      walkFail(o, "walk: key not NUL-terminated at size()");
    r.o.emplace_back(std::string(k.c_str(), k.size()), extract(kv.value(), o, budget, depth + 1));
    r.klinked.push_back(k.isLinked());
    n++;
    if (n > o.maxNodes)
      walkFail(o, "walk: object iteration does not end");
  }
  if (ob.size() != n || v.size() != n)
    walkFail(o, "walk: object size() " + std::to_string(v.size()) + " != iterated " + std::to_string(n));
  if (o.lookups && n <= 64) {
    for (size_t j = 0; j < n; j++) {
      const std::string& key = r.o[j].first;
      // lookup returns the first member with that key
      int first = r.memberIndex(key);
      size_t b2 = 1000000;
      WalkOpts o2 = o;
      o2.lookups = false;
      Val e = extract(ob[JsonString(key.data(), key.size(), JsonString::Copied)], o2, b2, depth + 1);
      if (!sameValue(e, r.o[size_t(first)].second))
        walkFail(o, "walk: obj[" + quote(key) + "] differs from iteration");
    }
  }
  if (v.nesting() != r.nesting())
    walkFail(o, "walk: nesting() " + std::to_string(v.nesting()) + " != " + std::to_string(r.nesting()));
  return r;
}

inline Val extract(JsonVariantConst v, const WalkOpts& o = WalkOpts()) {
  size_t budget = o.maxNodes;
  return extract(v, o, budget, 0);
}

}  // namespace sim
