// Canonical walk: reads a value back through the public read API only, and checks that
// the different read paths (is<T>, as<T>, size, nesting, iteration, index, key lookup)
// agree with each other. The result is a model value to compare with the reference model.
#pragma once
#include "aj.hpp"

#include "value.hpp"

namespace sim {

using ArduinoJson::JsonArrayConst;
using ArduinoJson::JsonObjectConst;
using ArduinoJson::JsonString;
using ArduinoJson::JsonVariantConst;


struct WalkOpts {
  const char* cls = "C04:walk-inconsistent";
  bool lookups = true;  // also look every key / index up (quadratic, keep for small values)
  size_t maxNodes = 200000;
};

inline void walkFail(const WalkOpts& o, const std::string& m) {
  violate(o.cls, m);
}

// What MessagePack says about the bytes of a raw value: a complete bin 8/16/32 object, a complete
// (fix)ext object, or neither. Decoded here independently of the library.
struct RawShape {
  bool isBin = false, isExt = false;
  int8_t extType = 0;
  std::string payload;
};

inline RawShape rawShape(const std::string& b) {
  RawShape r;
  if (b.empty())
    return r;
  unsigned char c = static_cast<unsigned char>(b[0]);
  auto be = [&](size_t at, size_t n, uint64_t& out) {
    if (at + n > b.size())
      return false;
    out = 0;
    for (size_t j = 0; j < n; j++)
      out = (out << 8) | static_cast<unsigned char>(b[at + j]);
    return true;
  };
  uint64_t len = 0;
  if (c >= 0xc4 && c <= 0xc6) {
    size_t w = size_t(1) << (c - 0xc4);
    if (be(1, w, len) && 1 + w + len == b.size()) {
      r.isBin = true;
      r.payload = b.substr(1 + w);
    }
  } else if (c >= 0xd4 && c <= 0xd8) {
    len = uint64_t(1) << (c - 0xd4);
    if (2 + len == b.size()) {
      r.isExt = true;
      r.extType = int8_t(b[1]);
      r.payload = b.substr(2);
    }
  } else if (c >= 0xc7 && c <= 0xc9) {
    size_t w = size_t(1) << (c - 0xc7);
    if (be(1, w, len) && 1 + w + 1 + len == b.size()) {
      r.isExt = true;
      r.extType = int8_t(b[1 + w]);
      r.payload = b.substr(2 + w);
    }
  }
  return r;
}

// is<MsgPackBinary/Extension>() and as<>() of any value agree with the bytes it holds (every non-raw
// value holds none)
inline void checkBinExt(JsonVariantConst v, const std::string& rawBytes, const WalkOpts& o) {
  RawShape want = rawShape(rawBytes);
  bool isBin = v.is<ArduinoJson::MsgPackBinary>();
  ArduinoJson::MsgPackBinary bin = v.as<ArduinoJson::MsgPackBinary>();
  if (isBin != want.isBin)
    walkFail(o, std::string("walk: is<MsgPackBinary>() is ") + (isBin ? "true" : "false") + " for " + quote(rawBytes.substr(0, 40)));
  if (want.isBin) {
    if (!bin.data() || bin.size() != want.payload.size() || memcmp(bin.data(), want.payload.data(), bin.size()) != 0)
      walkFail(o, "walk: as<MsgPackBinary>() differs from the payload held");
  } else if (bin.data() != nullptr || bin.size() != 0) {
    walkFail(o, "walk: as<MsgPackBinary>() of a value that is not a bin object is not empty");
  }
  bool isExt = v.is<ArduinoJson::MsgPackExtension>();
  ArduinoJson::MsgPackExtension ext = v.as<ArduinoJson::MsgPackExtension>();
  if (isExt != want.isExt)
    walkFail(o, std::string("walk: is<MsgPackExtension>() is ") + (isExt ? "true" : "false") + " for " + quote(rawBytes.substr(0, 40)));
  if (want.isExt) {
    if (!ext.data() || ext.size() != want.payload.size() || ext.type() != want.extType ||
        memcmp(ext.data(), want.payload.data(), ext.size()) != 0)
      walkFail(o, "walk: as<MsgPackExtension>() differs from the type/payload held");
  } else if (ext.data() != nullptr || ext.size() != 0) {
    walkFail(o, "walk: as<MsgPackExtension>() of a value that is not an ext object is not empty");
  }
}

inline Val extract(JsonVariantConst v, const WalkOpts& o, size_t& budget, int depth = 0) {
  if (budget == 0)
    walkFail(o, "walk: more nodes than the budget allows (cycle?)");
  budget--;
  if (depth > 300)
    walkFail(o, "walk: depth > 300 (cycle?)");

  bool isNull = v.isNull();
  bool isBool = v.is<bool>();
  bool isArr = v.is<JsonArrayConst>();
  bool isObj = v.is<JsonObjectConst>();
  bool isStr = v.is<const char*>();
  bool isI64 = v.is<int64_t>();
  bool isU64 = v.is<uint64_t>();
  bool isFlt = v.is<double>();  // true for every number
  bool isRaw = false;

  int kinds = int(isNull) + int(isBool) + int(isArr) + int(isObj) + int(isStr) + int(isFlt);
  if (kinds == 0) {
    // raw values answer false to everything; they are observable through serialization only
    isRaw = true;
  }
  if (kinds > 1)
    walkFail(o, "walk: value answers true to several kinds");
  if ((isI64 || isU64) && !isFlt)
    walkFail(o, "walk: is<integer> without is<double>");
  if (v.is<JsonString>() != isStr)
    walkFail(o, "walk: is<JsonString> != is<const char*>");
  if (v.is<float>() != isFlt)
    walkFail(o, "walk: is<float> != is<double>");
  if (!isRaw)
    checkBinExt(v, std::string(), o);

  if (isNull) {
    if (v.size() != 0 || v.nesting() != 0)
      walkFail(o, "walk: null with size/nesting");
    return Val::null();
  }
  if (isBool)
    return Val::boolean(v.as<bool>());
  if (isFlt) {
    if (isU64)
      return Val::uinteger(v.as<uint64_t>());
    if (isI64)
      return Val::integer(v.as<int64_t>());
#if ARDUINOJSON_USE_DOUBLE
    double d = v.as<double>();
    float f = v.as<float>();
    Val r = Val::dbl(d, true);
    if (r.k == K::Float && !(floatBits(r.f) == floatBits(f) || (f != f && r.f != r.f)))
      walkFail(o, "walk: as<float>() disagrees with as<double>()");
    return r;
#else
    return Val::flt(v.as<float>());
#endif
  }
  if (isStr) {
    JsonString s = v.as<JsonString>();
    if (s.isNull())
      walkFail(o, "walk: string with null data");
    const char* p = v.as<const char*>();
    if (p != s.c_str())
      walkFail(o, "walk: as<const char*> != as<JsonString>().c_str()");
    if (p[s.size()] != 0)  // as<const char*>() and as<JsonString>() then denote different strings
      violate("C14:unterminated-string", "walk: string not NUL-terminated at size()");
    std::string bytes(s.c_str(), s.size());
    if (v.as<std::string>() != bytes)
      walkFail(o, "walk: as<std::string> differs");
    if (v.size() != 0 || v.nesting() != 0)
      walkFail(o, "walk: string with size/nesting");
    return Val::str(bytes, s.isLinked());
  }
  if (isRaw) {
    // the only way to see a raw value is to serialize it; compact JSON writes it verbatim
    std::string out;
    serializeJson(v, out);
    checkBinExt(v, out, o);
    return Val::raw(out);
  }
  if (isArr) {
    JsonArrayConst a = v.as<JsonArrayConst>();
    Val r = Val::arr();
    size_t n = 0;
    for (JsonVariantConst e : a) {
      r.a.push_back(extract(e, o, budget, depth + 1));
      n++;
      if (n > o.maxNodes)
        walkFail(o, "walk: array iteration does not end");
    }
    if (a.size() != n || v.size() != n)
      walkFail(o, "walk: array size() " + std::to_string(v.size()) + " != iterated " + std::to_string(n));
    if (o.lookups && n <= 64) {
      for (size_t j = 0; j < n; j++) {
        size_t b2 = 1000000;
        WalkOpts o2 = o;
        o2.lookups = false;
        Val e = extract(a[j], o2, b2, depth + 1);
        if (!sameValue(e, r.a[j]))
          walkFail(o, "walk: a[" + std::to_string(j) + "] differs from iteration");
      }
      if (!a[n].isNull() || !v[n].isNull())
        walkFail(o, "walk: a[size] is not null");
    }
    if (v.nesting() != r.nesting() || a.nesting() != r.nesting())
      walkFail(o, "walk: nesting() " + std::to_string(v.nesting()) + " != " + std::to_string(r.nesting()));
    if (a.isNull() || !a)
      walkFail(o, "walk: JsonArrayConst of an array is null");
    {
      // iterators: operator->, ==, and the end reached after size() steps
      size_t k = 0;
      auto it = a.begin();
      for (; it != a.end() && k <= n; ++it, ++k)
        if (k < n && (it->isNull() != (r.a[k].k == K::Null) || it->size() != r.a[k].size() || !(it == it)))
          walkFail(o, "walk: array iterator-> disagrees with iteration at " + std::to_string(k));
      if (k != n || !(it == a.end()))
        walkFail(o, "walk: array iterator does not reach end() after size() steps");
    }
    if (!v.as<JsonObjectConst>().isNull() || v.as<JsonObjectConst>().size() != 0)
      walkFail(o, "walk: an array converts to a non-null JsonObjectConst");
    return r;
  }
  // object
  JsonObjectConst ob = v.as<JsonObjectConst>();
  Val r = Val::obj();
  size_t n = 0;
  for (ArduinoJson::JsonPairConst kv : ob) {
    JsonString k = kv.key();
    if (k.isNull())
      walkFail({"C05:member-without-key", o.lookups, o.maxNodes}, "walk: object member without a key");
    if (k.c_str()[k.size()] != 0)
      violate("C14:unterminated-string", "walk: key not NUL-terminated at size()");
    r.o.emplace_back(std::string(k.c_str(), k.size()), extract(kv.value(), o, budget, depth + 1));
    r.klinked.push_back(k.isLinked());
    n++;
    if (n > o.maxNodes)
      walkFail(o, "walk: object iteration does not end");
  }
  if (ob.size() != n || v.size() != n)
    walkFail(o, "walk: object size() " + std::to_string(v.size()) + " != iterated " + std::to_string(n));
  if (o.lookups && n <= 64) {
    for (size_t j = 0; j < n; j++) {
      const std::string& key = r.o[j].first;
      // lookup returns the first member with that key
      int first = r.memberIndex(key);
      size_t b2 = 1000000;
      WalkOpts o2 = o;
      o2.lookups = false;
      Val e = extract(ob[JsonString(key.data(), key.size(), JsonString::Copied)], o2, b2, depth + 1);
      if (!sameValue(e, r.o[size_t(first)].second))
        walkFail(o, "walk: obj[" + quote(key) + "] differs from iteration");
    }
  }
  if (v.nesting() != r.nesting() || ob.nesting() != r.nesting())
    walkFail(o, "walk: nesting() " + std::to_string(v.nesting()) + " != " + std::to_string(r.nesting()));
  if (ob.isNull() || !ob)
    walkFail(o, "walk: JsonObjectConst of an object is null");
  {
    size_t k = 0;
    auto it = ob.begin();
    for (; it != ob.end() && k <= n; ++it, ++k) {
      if (k >= n)
        break;
      JsonString key = it->key();
      if (std::string(key.c_str(), key.size()) != r.o[k].first || it->value().isNull() != (r.o[k].second.k == K::Null) ||
          !(it == it))
        walkFail(o, "walk: object iterator-> disagrees with iteration at " + std::to_string(k));
    }
    if (k != n || !(it == ob.end()))
      walkFail(o, "walk: object iterator does not reach end() after size() steps");
  }
  if (!v.as<JsonArrayConst>().isNull() || v.as<JsonArrayConst>().size() != 0)
    walkFail(o, "walk: an object converts to a non-null JsonArrayConst");
  if (o.lookups && n > 0 && n <= 64) {
    // the same lookup through the other kinds of key: const char* and std::string (when the key has no NUL),
    // and v[key] on the variant itself
    const std::string& key = r.o[0].first;
    if (key.find('\0') == std::string::npos) {
      int first = r.memberIndex(key);
      const Val& want = r.o[size_t(first)].second;
      JsonVariantConst viaC = ob[key.c_str()], viaS = ob[key], viaV = v[key.c_str()], viaVS = v[key];
      for (JsonVariantConst got : {viaC, viaS, viaV, viaVS})
        if (got.isNull() != (want.k == K::Null) || got.size() != want.size() || got.is<const char*>() != (want.k == K::Str))
          walkFail(o, "walk: obj[" + quote(key) + "] through a const char* / std::string key differs from iteration");
    }
    if (!ob["\x01no such key\x02"].isNull() || !v["\x01no such key\x02"].isNull())
      walkFail(o, "walk: lookup of an absent key is not null");
    if (n <= 8) {
      // ... and through a key that is itself a value of another document (any bytes, NUL included)
      const std::string& k0 = r.o[n - 1].first;
      const Val& want0 = r.o[size_t(r.memberIndex(k0))].second;
      ArduinoJson::JsonDocument kd;
      kd.set(JsonString(k0.data(), k0.size(), JsonString::Copied));
      JsonVariantConst kv = kd.as<JsonVariantConst>();
      if (!kd.overflowed()) {
        JsonVariantConst a1 = ob[kv], a2 = v[kv];
        for (JsonVariantConst got : {a1, a2})
          if (got.isNull() != (want0.k == K::Null) || got.size() != want0.size() || got.is<const char*>() != (want0.k == K::Str) ||
              got.is<bool>() != (want0.k == K::Bool))
            walkFail(o, "walk: obj[variant holding " + quote(k0) + "] differs from iteration");
      }
    }
  }
  return r;
}

inline Val extract(JsonVariantConst v, const WalkOpts& o = WalkOpts()) {
  size_t budget = o.maxNodes;
  return extract(v, o, budget, 0);
}

}  // namespace sim
