// Deterministic-simulation kernel: PRNG, hashing, plans, violations, counters.
// No ArduinoJson header is included here.
#pragma once
#include <stdint.h>
#include <stdio.h>
#include <stdlib.h>
#include <string.h>

#include <map>
#include <stdexcept>
#include <string>
#include <utility>
#include <vector>

namespace sim {

// ---------------------------------------------------------------- hashing
inline uint64_t mix64(uint64_t x) {
  x += 0x9E3779B97F4A7C15ull;
  x = (x ^ (x >> 30)) * 0xBF58476D1CE4E5B9ull;
  x = (x ^ (x >> 27)) * 0x94D049BB133111EBull;
  return x ^ (x >> 31);
}

inline uint64_t hashBytes(const void* p, size_t n, uint64_t h = 0xcbf29ce484222325ull) {
  auto s = static_cast<const unsigned char*>(p);
  for (size_t i = 0; i < n; i++) {
    h ^= s[i];
    h *= 0x100000001b3ull;
  }
  return h;
}

inline uint64_t hashStr(const std::string& s, uint64_t h = 0xcbf29ce484222325ull) {
  return hashBytes(s.data(), s.size(), h);
}

// Running transcript hash: every observable event is folded in.
struct Transcript {
  uint64_t h = 0x1234567887654321ull;
  uint64_t events = 0;
  void u(uint64_t v) {
    h = mix64(h ^ mix64(v + events));
    events++;
  }
  void s(const std::string& v) {
    u(hashStr(v));
  }
  void tag(const char* t) {
    u(hashBytes(t, strlen(t)));
  }
};

// ---------------------------------------------------------------- PRNG
struct Rng {
  uint64_t s;
  explicit Rng(uint64_t seed = 0) : s(seed) {}
  uint64_t next() {
    s += 0x9E3779B97F4A7C15ull;
    uint64_t z = s;
    z = (z ^ (z >> 30)) * 0xBF58476D1CE4E5B9ull;
    z = (z ^ (z >> 27)) * 0x94D049BB133111EBull;
    return z ^ (z >> 31);
  }
  // uniform in [0, n)
  uint64_t below(uint64_t n) {
    return n ? next() % n : 0;
  }
  // uniform in [lo, hi]
  int64_t range(int64_t lo, int64_t hi) {
    return lo + int64_t(below(uint64_t(hi - lo) + 1));
  }
  bool chance(unsigned num, unsigned den) {
    return below(den) < num;
  }
  template <typename T>
  const T& pick(const std::vector<T>& v) {
    return v[below(v.size())];
  }
};

inline uint64_t deriveSeed(uint64_t root, const std::string& family, const std::string& mode,
                           uint64_t run) {
  uint64_t h = mix64(root);
  h = mix64(h ^ hashStr(family));
  h = mix64(h ^ hashStr(mode));
  h = mix64(h ^ run);
  return h;
}

// ---------------------------------------------------------------- violations
struct Violation : std::exception {
  std::string cls;  // "<property>:<oracle-id>"
  std::string msg;
  Violation(std::string c, std::string m) : cls(std::move(c)), msg(std::move(m)) {}
  const char* what() const noexcept override {
    return msg.c_str();
  }
};

// harness-internal inconsistency (a bug in the simulator, never a finding)
struct HarnessError : std::exception {
  std::string msg;
  explicit HarnessError(std::string m) : msg(std::move(m)) {}
  const char* what() const noexcept override {
    return msg.c_str();
  }
};

[[noreturn]] inline void violate(const std::string& cls, const std::string& msg) {
  throw Violation(cls, msg);
}

inline void expect(bool ok, const char* cls, const std::string& msg) {
  if (!ok)
    throw Violation(cls, msg);
}

// ---------------------------------------------------------------- counters
struct Stats {
  std::map<std::string, uint64_t> c;
  void add(const std::string& k, uint64_t n = 1) {
    c[k] += n;
  }
  void maxv(const std::string& k, uint64_t v) {
    auto& x = c[k];
    if (v > x)
      x = v;
  }
};
// HyperLogLog sketches (2^12 registers, standard error about 1.6 %): "how many distinct states /
// outcomes / interleavings were reached" without keeping them; the driver merges the sketches of all
// worker processes register-wise.
struct Hll {
  static constexpr int P = 12;
  uint8_t reg[1 << P] = {};
  void add(uint64_t h) {
    h = mix64(h);
    uint32_t idx = uint32_t(h >> (64 - P));
    uint64_t rest = h << P;
    uint8_t rank = rest ? uint8_t(__builtin_clzll(rest) + 1) : uint8_t(64 - P + 1);
    if (rank > reg[idx])
      reg[idx] = rank;
  }
  void merge(const Hll& o) {
    for (int i = 0; i < (1 << P); i++)
      if (o.reg[i] > reg[i])
        reg[i] = o.reg[i];
  }
};
struct Sketches {
  std::map<std::string, Hll> m;
};
extern thread_local Sketches g_sketches;
inline void sketch(const char* name, uint64_t h) {
  g_sketches.m[name].add(h);
}

extern thread_local Stats g_stats;  // per thread; task threads merge into the main thread's at their end

inline void count(const char* k, uint64_t n = 1) {
  g_stats.c[k] += n;
}

// ---------------------------------------------------------------- string escaping
inline std::string quote(const std::string& s) {
  static const char* hex = "0123456789abcdef";
  std::string o = "\"";
  for (unsigned char c : s) {
    if (c == '"' || c == '\\') {
      o += '\\';
      o += char(c);
    } else if (c > 0x20 && c < 0x7f) {
      o += char(c);
    } else {
      o += "\\x";
      o += hex[c >> 4];
      o += hex[c & 15];
    }
  }
  o += '"';
  return o;
}

inline int hexv(char c) {
  if (c >= '0' && c <= '9')
    return c - '0';
  if (c >= 'a' && c <= 'f')
    return c - 'a' + 10;
  if (c >= 'A' && c <= 'F')
    return c - 'A' + 10;
  return -1;
}

// parses a quoted string starting at s[pos]=='"'; advances pos past the closing quote
inline std::string unquote(const std::string& s, size_t& pos) {
  if (pos >= s.size() || s[pos] != '"')
    throw HarnessError("unquote: expected '\"' in " + s);
  pos++;
  std::string o;
  while (pos < s.size() && s[pos] != '"') {
    char c = s[pos++];
    if (c == '\\') {
      if (pos >= s.size())
        throw HarnessError("unquote: dangling backslash");
      char e = s[pos++];
      if (e == 'x') {
        if (pos + 1 >= s.size())
          throw HarnessError("unquote: short \\x");
        int a = hexv(s[pos]), b = hexv(s[pos + 1]);
        if (a < 0 || b < 0)
          throw HarnessError("unquote: bad hex");
        o += char(a * 16 + b);
        pos += 2;
      } else {
        o += e;
      }
    } else {
      o += c;
    }
  }
  if (pos >= s.size())
    throw HarnessError("unquote: unterminated in " + s);
  pos++;
  return o;
}

inline std::string unquoteAll(const std::string& s) {
  size_t p = 0;
  return unquote(s, p);
}

inline std::string hexdump(const std::string& s, size_t maxn = 96) {
  return quote(s.size() > maxn ? s.substr(0, maxn) + "..." : s);
}

// ---------------------------------------------------------------- plans
// A plan is a header line and a list of operations; both are bags of key=value.
// Values never contain blanks (strings are escaped by quote()).
struct Op {
  std::vector<std::pair<std::string, std::string>> kv;

  bool has(const std::string& k) const {
    for (auto& p : kv)
      if (p.first == k)
        return true;
    return false;
  }
  const std::string& str(const std::string& k) const {
    static const std::string empty;
    for (auto& p : kv)
      if (p.first == k)
        return p.second;
    return empty;
  }
  std::string str(const std::string& k, const std::string& dflt) const {
    return has(k) ? str(k) : dflt;
  }
  int64_t num(const std::string& k, int64_t dflt = 0) const {
    if (!has(k))
      return dflt;
    return strtoll(str(k).c_str(), nullptr, 10);
  }
  uint64_t unum(const std::string& k, uint64_t dflt = 0) const {
    if (!has(k))
      return dflt;
    return strtoull(str(k).c_str(), nullptr, 10);
  }
  std::string qstr(const std::string& k) const {  // quoted string argument
    if (!has(k))
      return std::string();
    return unquoteAll(str(k));
  }
  Op& set(const std::string& k, const std::string& v) {
    for (auto& p : kv)
      if (p.first == k) {
        p.second = v;
        return *this;
      }
    kv.emplace_back(k, v);
    return *this;
  }
  Op& set(const std::string& k, int64_t v) {
    return set(k, std::to_string(v));
  }
  Op& setu(const std::string& k, uint64_t v) {
    return set(k, std::to_string(v));
  }
  Op& setq(const std::string& k, const std::string& raw) {
    return set(k, quote(raw));
  }
  const std::string& name() const {
    return str("op");
  }
  std::string text() const {
    std::string o;
    for (auto& p : kv) {
      if (!o.empty())
        o += ' ';
      o += p.first;
      o += '=';
      o += p.second;
    }
    return o;
  }
  static Op parse(const std::string& line) {
    Op op;
    size_t i = 0;
    while (i < line.size()) {
      while (i < line.size() && line[i] == ' ')
        i++;
      if (i >= line.size())
        break;
      size_t eq = line.find('=', i);
      if (eq == std::string::npos)
        throw HarnessError("plan: token without '=' in: " + line);
      size_t end = line.find(' ', eq);
      if (end == std::string::npos)
        end = line.size();
      op.kv.emplace_back(line.substr(i, eq - i), line.substr(eq + 1, end - eq - 1));
      i = end;
    }
    return op;
  }
};

inline Op mkop(const char* name) {
  Op o;
  o.set("op", name);
  return o;
}

struct Plan {
  Op head;  // family=… mode=… seed=… run=… + scenario options
  std::vector<Op> ops;

  std::string text() const {
    std::string o = "plan " + head.text() + "\n";
    for (auto& op : ops)
      o += op.text() + "\n";
    return o;
  }
  static Plan parse(const std::string& text) {
    Plan p;
    size_t i = 0;
    bool first = true;
    while (i < text.size()) {
      size_t nl = text.find('\n', i);
      if (nl == std::string::npos)
        nl = text.size();
      std::string line = text.substr(i, nl - i);
      i = nl + 1;
      if (line.empty() || line[0] == '#')
        continue;
      if (first) {
        if (line.compare(0, 5, "plan ") != 0)
          throw HarnessError("plan: missing header");
        p.head = Op::parse(line.substr(5));
        first = false;
      } else {
        p.ops.push_back(Op::parse(line));
      }
    }
    if (first)
      throw HarnessError("plan: empty");
    return p;
  }
};

inline std::string readFile(const std::string& path) {
  FILE* f = fopen(path.c_str(), "rb");
  if (!f)
    throw HarnessError("cannot open " + path);
  std::string s;
  char buf[65536];
  size_t n;
  while ((n = fread(buf, 1, sizeof buf, f)) > 0)
    s.append(buf, n);
  fclose(f);
  return s;
}

inline void writeFile(const std::string& path, const std::string& s) {
  FILE* f = fopen(path.c_str(), "wb");
  if (!f)
    throw HarnessError("cannot write " + path);
  fwrite(s.data(), 1, s.size(), f);
  fclose(f);
}

// ---------------------------------------------------------------- run outcome
struct Outcome {
  bool ok = true;
  std::string cls;  // violation class when !ok
  std::string msg;
  uint64_t hash = 0;  // transcript hash (every event, allocator calls included)
  uint64_t obs = 0;   // hash of the configuration-independent observables only
  uint64_t steps = 0;
  bool nontrivial = true;  // by the family's stated rule (evidence: distinct_nontrivial)
};

// Every scenario family implements these two entry points.
struct Family {
  const char* name;
  // generate a plan for (mode, seed); pure function of its arguments
  Plan (*generate)(const std::string& mode, uint64_t seed, uint64_t run);
  // execute a plan; throws Violation
  Outcome (*execute)(const Plan& plan);
};

}  // namespace sim
