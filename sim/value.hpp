// Reference model of a JSON-like value: a plain ordered tree.
// No ArduinoJson header is included here.
#pragma once
#include <math.h>

#include <functional>

#include "kernel.hpp"

namespace sim {

enum class K : uint8_t { Null, Bool, Int, UInt, Float, Double, Str, Raw, Arr, Obj };

inline const char* kindName(K k) {
  static const char* n[] = {"null", "bool", "int", "uint", "float", "double", "str", "raw", "arr", "obj"};
  return n[int(k)];
}

struct Val {
  K k = K::Null;
  bool b = false;
  int64_t i = 0;    // Int: always negative after normalise()
  uint64_t u = 0;   // UInt
  float f = 0;      // Float
  double d = 0;     // Double: never float-representable after normalise()
  std::string s;    // Str / Raw bytes
  bool linked = false;  // Str only: stored by address (observable only through isLinked())
  std::vector<Val> a;
  std::vector<std::pair<std::string, Val>> o;
  std::vector<bool> klinked;  // Obj: per member, key stored by address (parallel to o when used)
  uint32_t id = 0;  // node identity, used by the live-reference table

  static Val null() {
    return Val();
  }
  static Val boolean(bool x) {
    Val v;
    v.k = K::Bool;
    v.b = x;
    return v;
  }
  static Val integer(int64_t x) {
    Val v;
    if (x < 0) {
      v.k = K::Int;
      v.i = x;
    } else {
      v.k = K::UInt;
      v.u = uint64_t(x);
    }
    return v;
  }
  static Val uinteger(uint64_t x) {
    Val v;
    v.k = K::UInt;
    v.u = x;
    return v;
  }
  static Val flt(float x) {
    Val v;
    v.k = K::Float;
    v.f = x;
    return v;
  }
  // a double is stored as a float whenever that loses nothing
  static Val dbl(double x, bool useDouble = true) {
    Val v;
    float xf = float(x);
    if (!useDouble || double(xf) == x || (x != x)) {
      v.k = K::Float;
      v.f = xf;
    } else {
      v.k = K::Double;
      v.d = x;
    }
    return v;
  }
  static Val str(const std::string& x, bool linked = false) {
    Val v;
    v.k = K::Str;
    v.s = x;
    v.linked = linked;
    return v;
  }
  static Val raw(const std::string& x) {
    Val v;
    v.k = K::Raw;
    v.s = x;
    return v;
  }
  static Val arr() {
    Val v;
    v.k = K::Arr;
    return v;
  }
  static Val obj() {
    Val v;
    v.k = K::Obj;
    return v;
  }

  bool isNum() const {
    return k == K::Int || k == K::UInt || k == K::Float || k == K::Double;
  }
  bool isContainer() const {
    return k == K::Arr || k == K::Obj;
  }
  double asDouble() const {
    switch (k) {
      case K::Int:
        return double(i);
      case K::UInt:
        return double(u);
      case K::Float:
        return double(f);
      case K::Double:
        return d;
      default:
        return 0;
    }
  }
  // first member with that key (MessagePack input may create duplicates)
  Val* member(const std::string& key) {
    for (auto& m : o)
      if (m.first == key)
        return &m.second;
    return nullptr;
  }
  const Val* member(const std::string& key) const {
    return const_cast<Val*>(this)->member(key);
  }
  int memberIndex(const std::string& key) const {
    for (size_t j = 0; j < o.size(); j++)
      if (o[j].first == key)
        return int(j);
    return -1;
  }
  size_t size() const {
    return k == K::Arr ? a.size() : k == K::Obj ? o.size() : 0;
  }
  size_t nesting() const {
    if (!isContainer())
      return 0;
    size_t m = 0;
    for (auto& e : a)
      m = std::max(m, e.nesting());
    for (auto& e : o)
      m = std::max(m, e.second.nesting());
    return m + 1;
  }
  size_t nodes() const {
    size_t n = 1;
    for (auto& e : a)
      n += e.nodes();
    for (auto& e : o)
      n += e.second.nodes();
    return n;
  }
  void clearTo(K nk) {
    uint32_t keep = id;
    *this = Val();
    k = nk;
    id = keep;
  }
};

inline uint32_t floatBits(float f) {
  uint32_t b;
  memcpy(&b, &f, 4);
  return b;
}
inline uint64_t doubleBits(double d) {
  uint64_t b;
  memcpy(&b, &d, 8);
  return b;
}
inline float bitsFloat(uint32_t b) {
  float f;
  memcpy(&f, &b, 4);
  return f;
}
inline double bitsDouble(uint64_t b) {
  double d;
  memcpy(&d, &b, 8);
  return d;
}

// ---------------------------------------------------------------- equality
// Structural equality of observable content. Floats compare by value, NaN==NaN;
// `linked` and ids are ignored (storage is unobservable, ids are bookkeeping).
inline bool sameValue(const Val& x, const Val& y) {
  if (x.k != y.k)
    return false;
  switch (x.k) {
    case K::Null:
      return true;
    case K::Bool:
      return x.b == y.b;
    case K::Int:
      return x.i == y.i;
    case K::UInt:
      return x.u == y.u;
    case K::Float:
      return (x.f != x.f && y.f != y.f) || floatBits(x.f) == floatBits(y.f) || x.f == y.f;
    case K::Double:
      return (x.d != x.d && y.d != y.d) || x.d == y.d;
    case K::Str:
    case K::Raw:
      return x.s == y.s;
    case K::Arr:
      if (x.a.size() != y.a.size())
        return false;
      for (size_t j = 0; j < x.a.size(); j++)
        if (!sameValue(x.a[j], y.a[j]))
          return false;
      return true;
    case K::Obj:
      if (x.o.size() != y.o.size())
        return false;
      for (size_t j = 0; j < x.o.size(); j++)
        if (x.o[j].first != y.o[j].first || !sameValue(x.o[j].second, y.o[j].second))
          return false;
      return true;
  }
  return false;
}

// ---------------------------------------------------------------- text form
inline std::string toText(const Val& v) {
  char buf[64];
  switch (v.k) {
    case K::Null:
      return "n";
    case K::Bool:
      return v.b ? "t" : "f";
    case K::Int:
      snprintf(buf, sizeof buf, "i%lld", (long long)v.i);
      return buf;
    case K::UInt:
      snprintf(buf, sizeof buf, "u%llu", (unsigned long long)v.u);
      return buf;
    case K::Float:
      snprintf(buf, sizeof buf, "F%08x", floatBits(v.f));
      return buf;
    case K::Double:
      snprintf(buf, sizeof buf, "D%016llx", (unsigned long long)doubleBits(v.d));
      return buf;
    case K::Str:
      return (v.linked ? "l" : "s") + quote(v.s);
    case K::Raw:
      return "r" + quote(v.s);
    case K::Arr: {
      std::string o = "[";
      for (size_t j = 0; j < v.a.size(); j++) {
        if (j)
          o += ',';
        o += toText(v.a[j]);
      }
      return o + "]";
    }
    case K::Obj: {
      std::string o = "{";
      for (size_t j = 0; j < v.o.size(); j++) {
        if (j)
          o += ',';
        o += quote(v.o[j].first);
        o += ':';
        o += toText(v.o[j].second);
      }
      return o + "}";
    }
  }
  return "?";
}

inline Val parseText(const std::string& s, size_t& p) {
  if (p >= s.size())
    throw HarnessError("value: unexpected end in " + s);
  char c = s[p++];
  switch (c) {
    case 'n':
      return Val::null();
    case 't':
      return Val::boolean(true);
    case 'f':
      return Val::boolean(false);
    case 'i': {
      char* e;
      long long x = strtoll(s.c_str() + p, &e, 10);
      p = size_t(e - s.c_str());
      Val v;
      v.k = K::Int;
      v.i = x;
      if (x >= 0) {
        v.k = K::UInt;
        v.u = uint64_t(x);
      }
      return v;
    }
    case 'u': {
      char* e;
      unsigned long long x = strtoull(s.c_str() + p, &e, 10);
      p = size_t(e - s.c_str());
      return Val::uinteger(x);
    }
    case 'F': {
      uint32_t b = uint32_t(strtoul(s.substr(p, 8).c_str(), nullptr, 16));
      p += 8;
      return Val::flt(bitsFloat(b));
    }
    case 'D': {
      uint64_t b = strtoull(s.substr(p, 16).c_str(), nullptr, 16);
      p += 16;
      Val v;
      v.k = K::Double;
      v.d = bitsDouble(b);
      return v;
    }
    case 's':
      return Val::str(unquote(s, p), false);
    case 'l':
      return Val::str(unquote(s, p), true);
    case 'r':
      return Val::raw(unquote(s, p));
    case '[': {
      Val v = Val::arr();
      if (p < s.size() && s[p] == ']') {
        p++;
        return v;
      }
      for (;;) {
        v.a.push_back(parseText(s, p));
        if (p < s.size() && s[p] == ',') {
          p++;
          continue;
        }
        if (p < s.size() && s[p] == ']') {
          p++;
          return v;
        }
        throw HarnessError("value: bad array in " + s);
      }
    }
    case '{': {
      Val v = Val::obj();
      if (p < s.size() && s[p] == '}') {
        p++;
        return v;
      }
      for (;;) {
        std::string key = unquote(s, p);
        if (p >= s.size() || s[p] != ':')
          throw HarnessError("value: missing ':' in " + s);
        p++;
        v.o.emplace_back(key, parseText(s, p));
        if (p < s.size() && s[p] == ',') {
          p++;
          continue;
        }
        if (p < s.size() && s[p] == '}') {
          p++;
          return v;
        }
        throw HarnessError("value: bad object in " + s);
      }
    }
  }
  throw HarnessError(std::string("value: bad tag '") + c + "' in " + s);
}

inline Val parseText(const std::string& s) {
  size_t p = 0;
  Val v = parseText(s, p);
  if (p != s.size())
    throw HarnessError("value: trailing text in " + s);
  return v;
}

// canonical-state hash of a value (ignores ids and linkage)
inline uint64_t valueHash(const Val& v) {
  return hashStr(toText(v));
}

// ---------------------------------------------------------------- normalisation
// Brings a value into the form the document stores it in, for a given build:
// non-negative integers are UInt, float-representable doubles are Float,
// doubles become floats when doubles are disabled.
inline void normalise(Val& v, bool useDouble) {
  switch (v.k) {
    case K::Int:
      if (v.i >= 0) {
        v.k = K::UInt;
        v.u = uint64_t(v.i);
      }
      break;
    case K::Double: {
      Val n = Val::dbl(v.d, useDouble);
      n.id = v.id;
      v = n;
      break;
    }
    default:
      break;
  }
  for (auto& e : v.a)
    normalise(e, useDouble);
  for (auto& e : v.o)
    normalise(e.second, useDouble);
}

// ---------------------------------------------------------------- generator
struct GenOpts {
  int maxDepth = 4;
  int maxWidth = 5;
  int maxStr = 40;        // typical upper bound of generated strings
  bool allowRaw = false;  // raw values (JSON fragments)
  bool allowBin = false;  // raw values holding MessagePack bin/ext objects
  bool extremeDoubles = false;  // doubles over the whole exponent range (MessagePack contexts only)
  bool malformedBin = false;  // ... and, now and then, bytes that only look like one (API histories only)
  bool binEdges = false;  // bin/ext payloads of 254..257 bytes too (8/16-bit length headers)
  bool allowNonFinite = true;
  bool allowNulInStr = true;
  bool allowNulInKey = false;
  bool allowDouble = true;
  bool dupKeys = false;  // never by default (API and JSON input de-duplicate)
  bool asciiOnly = false;
  bool allowLinked = false;
};

inline std::string genString(Rng& r, const GenOpts& o, bool isKey) {
  static const std::vector<std::string> common = {"",      "a",    "b",     "key",  "value", "id",  "name",
                                                  "hello", "0",    "42",    "-1.5", "1e3",   "true", "null",
                                                  "*",     "x y",  "é",     "ab",   "abc",   "a.b", "12abc"};
  unsigned sel = unsigned(r.below(100));
  if (sel < 45)
    return r.pick(common);
  size_t len;
  if (sel < 80)
    len = size_t(r.below(8));
  else if (sel < 95)
    len = size_t(r.below(size_t(o.maxStr) + 1));
  else {
    static const size_t edges[] = {15, 16, 31, 32, 33, 63, 64, 65};
    len = edges[r.below(8)];
    if (len > size_t(o.maxStr) && o.maxStr >= 0)
      len = size_t(o.maxStr);
  }
  std::string s;
  unsigned style = unsigned(r.below(10));
  for (size_t j = 0; j < len; j++) {
    unsigned char c;
    if (o.asciiOnly || style < 6)
      c = (unsigned char)('a' + r.below(26));
    else if (style < 8)
      c = (unsigned char)(0x20 + r.below(0x5f));
    else
      c = (unsigned char)r.below(256);
    if (c == 0 && !(isKey ? o.allowNulInKey : o.allowNulInStr))
      c = 'z';
    s += char(c);
  }
  return s;
}

inline int64_t genInt(Rng& r) {
  unsigned sel = unsigned(r.below(100));
  if (sel < 40)
    return r.range(-20, 300);
  if (sel < 80) {
    // around powers of two and type limits
    int bit = int(r.below(64));
    uint64_t base = bit == 63 ? 0x8000000000000000ull : (1ull << bit);
    int64_t delta = r.range(-2, 2);
    uint64_t v = base + uint64_t(delta);
    int64_t sv = int64_t(v);
    return r.chance(1, 2) ? sv : int64_t(0 - uint64_t(sv));
  }
  return int64_t(r.next());
}

inline double genDouble(Rng& r, bool nonFinite, bool extreme = false) {
  if (extreme && r.chance(1, 6)) {
    // short mantissas over the whole exponent range of a double (beyond float's on both sides, subnormals
    // included): binary formats carry them exactly
    static const double ms[] = {1.0, 1.5, 1.25, 1.75, 1.0 + 1.0 / (1 << 23), 1.0 + 1.0 / (1 << 24)};
    double x = ldexp(ms[r.below(6)], int(r.range(-1074, 1023)));
    return r.chance(1, 2) ? x : -x;
  }
  unsigned sel = unsigned(r.below(100));
  if (sel < 30) {
    static const double nice[] = {0.5, 1.5, -2.25, 3.14159, 0.1, 1e-3, 1e10, 123456.789, -0.0, 2.5e-10, 1e20, 6.02e23};
    return nice[r.below(sizeof nice / sizeof *nice)];
  }
  if (sel < 40 && nonFinite) {
    static const double nf[] = {INFINITY, -INFINITY, NAN};
    return nf[r.below(3)];
  }
  if (sel < 70) {
    // integral floats around powers of two
    int bit = int(r.below(70));
    double base = ldexp(1.0, bit);
    return (r.chance(1, 2) ? base : -base) + double(r.range(-2, 2));
  }
  if (sel < 85)
    return double(float(double(r.range(-1000000, 1000000)) / 1000.0));
  // random mantissa, moderate exponent (keeps text round-trips inside stated accuracy)
  double m = double(r.below(1ull << 52)) / double(1ull << 52) + 1.0;
  int e = int(r.range(-60, 60));
  double x = ldexp(m, e);
  return r.chance(1, 2) ? x : -x;
}

inline Val genScalar(Rng& r, const GenOpts& o) {
  unsigned sel = unsigned(r.below(100));
  if (sel < 8)
    return Val::null();
  if (sel < 16)
    return Val::boolean(r.chance(1, 2));
  if (sel < 40)
    return Val::integer(genInt(r));
  if (sel < 46)
    return Val::uinteger(r.chance(1, 2) ? r.next() : (0xFFFFFFFFFFFFFFFFull - r.below(3)));
  if (sel < 60) {
    double d = genDouble(r, o.allowNonFinite, o.extremeDoubles);
    if (r.chance(1, 3) && !(o.extremeDoubles && (fabs(d) > 3e38 || (d != 0 && fabs(d) < 2e-38))))
      return Val::flt(float(d));
    return Val::dbl(d, o.allowDouble);
  }
  if (sel < 94 || (!o.allowRaw && !o.allowBin)) {
    Val v = Val::str(genString(r, o, false));
    if (o.allowLinked && r.chance(1, 2) && v.s.find('\0') == std::string::npos)
      v.linked = true;
    return v;
  }
  if (o.allowBin && (!o.allowRaw || r.chance(1, 2))) {
    // MessagePack bin 8 / fixext / ext 8 object
    std::string payload;
    size_t n = size_t(r.below(20));
    if (r.chance(1, 6)) {
      // around multiples of a 16-byte block; and the empty payload (a header with nothing behind it)
      static const size_t blocks[] = {15, 16, 17, 31, 32, 33, 47, 48, 64, 0, 0, 0};
      n = blocks[r.below(12)];
    }
    if (o.binEdges && r.chance(1, 12)) {
      static const size_t edges[] = {254, 255, 256, 257};
      n = edges[r.below(4)];
    }
    for (size_t j = 0; j < n; j++)
      payload += char(r.below(256));
    std::string s;
    if (r.chance(1, 2)) {
      if (n < 256) {
        s += char(0xc4);
        s += char(n);
      } else {
        s += char(0xc5);
        s += char(n >> 8);
        s += char(n & 0xff);
      }
      s += payload;
    } else {
      char type = char(r.below(256));
      if (n == 1 || n == 2 || n == 4 || n == 8 || n == 16) {
        s += char(n == 1 ? 0xd4 : n == 2 ? 0xd5 : n == 4 ? 0xd6 : n == 8 ? 0xd7 : 0xd8);
      } else if (n < 256) {
        s += char(0xc7);
        s += char(n);
      } else {
        s += char(0xc8);
        s += char(n >> 8);
        s += char(n & 0xff);
      }
      s += type;
      s += payload;
    }
    if (o.malformedBin && r.chance(1, 8)) {
      // not a complete bin/ext object any more (cut short, or one byte too many): such bytes can only be
      // stored with serialized(), and is<MsgPackBinary/Extension>() must answer false without looking
      // beyond them
      if (r.chance(1, 3)) {
        // a lone header of one of the 16/32-bit families, with none or some of its length bytes
        static const unsigned char codes[] = {0xc9, 0xc9, 0xc8, 0xc7, 0xc6, 0xc5, 0xc4, 0xd8, 0xd4};
        s = std::string(1, char(codes[r.below(sizeof(codes))]));
        size_t extra = size_t(r.below(4));
        for (size_t j = 0; j < extra; j++)
          s += char(r.chance(1, 2) ? 0 : r.below(256));
      } else if (s.size() > 1 && r.chance(2, 3)) {
        s.resize(1 + size_t(r.below(s.size() - 1)));
      } else {
        s += char(r.below(256));
      }
    }
    return Val::raw(s);
  }
  static const std::vector<std::string> raws = {"[1,2]", "{\"r\":1}", "\"raw\"", "1e5", "true", "null", "-12", "[]"};
  return Val::raw(r.pick(raws));
}

inline Val genValue(Rng& r, const GenOpts& o, int depth = 0) {
  unsigned sel = unsigned(r.below(100));
  if (depth >= o.maxDepth || sel < 55)
    return genScalar(r, o);
  size_t n = size_t(r.below(size_t(o.maxWidth) + 1));
  if (sel < 77) {
    Val v = Val::arr();
    for (size_t j = 0; j < n; j++)
      v.a.push_back(genValue(r, o, depth + 1));
    return v;
  }
  Val v = Val::obj();
  for (size_t j = 0; j < n; j++) {
    std::string key = genString(r, o, true);
    if (!o.dupKeys && v.member(key))
      continue;
    v.o.emplace_back(key, genValue(r, o, depth + 1));
  }
  return v;
}

// recognises the MessagePack bin/ext objects the API can create itself
inline bool asBin(const std::string& raw, std::string& payload) {
  // the header the API itself would choose for that payload size (bin 8 / 16 / 32)
  if (raw.empty())
    return false;
  unsigned c = (unsigned char)raw[0];
  size_t hdr = c == 0xC4 ? 2 : c == 0xC5 ? 3 : c == 0xC6 ? 5 : 0;
  if (!hdr || raw.size() < hdr)
    return false;
  size_t n = 0;
  for (size_t j = 1; j < hdr; j++)
    n = (n << 8) | (unsigned char)raw[j];
  if (raw.size() != hdr + n)
    return false;
  size_t want = n >= 0x10000 ? 5 : n >= 0x100 ? 3 : 2;
  if (hdr != want)
    return false;
  payload = raw.substr(hdr);
  return true;
}
inline bool asExt(const std::string& raw, int8_t& type, std::string& payload) {
  if (raw.empty())
    return false;
  unsigned c = (unsigned char)raw[0];
  if (c >= 0xD4 && c <= 0xD8) {
    size_t n = size_t(1) << (c - 0xD4);
    if (raw.size() != n + 2)
      return false;
    type = int8_t(raw[1]);
    payload = raw.substr(2);
    return true;
  }
  size_t lenBytes = c == 0xC7 ? 1 : c == 0xC8 ? 2 : c == 0xC9 ? 4 : 0;
  if (!lenBytes || raw.size() < 2 + lenBytes)
    return false;
  size_t n = 0;
  for (size_t j = 1; j <= lenBytes; j++)
    n = (n << 8) | (unsigned char)raw[j];
  if (raw.size() != n + 2 + lenBytes)
    return false;
  // the header the API itself would choose for that payload size
  size_t want = n >= 0x10000 ? 4 : n >= 0x100 ? 2 : 1;
  if (lenBytes != want)
    return false;
  if (lenBytes == 1 && (n == 1 || n == 2 || n == 4 || n == 8 || n == 16))
    return false;  // the API would have chosen a fixext
  type = int8_t(raw[1 + lenBytes]);
  payload = raw.substr(2 + lenBytes);
  return true;
}

// depth-first visit
inline void visit(Val& v, const std::function<void(Val&)>& f) {
  f(v);
  for (auto& e : v.a)
    visit(e, f);
  for (auto& e : v.o)
    visit(e.second, f);
}
inline void visitc(const Val& v, const std::function<void(const Val&)>& f) {
  f(v);
  for (auto& e : v.a)
    visitc(e, f);
  for (auto& e : v.o)
    visitc(e.second, f);
}

// a short description of where two values differ
inline std::string firstDiff(const Val& x, const Val& y, const std::string& path = "$") {
  if (x.k != y.k)
    return path + ": kind " + kindName(x.k) + " vs " + kindName(y.k) + " (" + toText(x).substr(0, 60) + " | " +
           toText(y).substr(0, 60) + ")";
  if (x.k == K::Arr) {
    if (x.a.size() != y.a.size())
      return path + ": array size " + std::to_string(x.a.size()) + " vs " + std::to_string(y.a.size());
    for (size_t j = 0; j < x.a.size(); j++)
      if (!sameValue(x.a[j], y.a[j]))
        return firstDiff(x.a[j], y.a[j], path + "[" + std::to_string(j) + "]");
  } else if (x.k == K::Obj) {
    if (x.o.size() != y.o.size())
      return path + ": object size " + std::to_string(x.o.size()) + " vs " + std::to_string(y.o.size());
    for (size_t j = 0; j < x.o.size(); j++) {
      if (x.o[j].first != y.o[j].first)
        return path + ": key #" + std::to_string(j) + " " + quote(x.o[j].first) + " vs " + quote(y.o[j].first);
      if (!sameValue(x.o[j].second, y.o[j].second))
        return firstDiff(x.o[j].second, y.o[j].second, path + "." + quote(x.o[j].first));
    }
  } else if (!sameValue(x, y)) {
    return path + ": " + toText(x).substr(0, 80) + " vs " + toText(y).substr(0, 80);
  }
  return path + ": (equal)";
}

}  // namespace sim
