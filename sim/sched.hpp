// Seeded scheduler for the `conc` family: caller threads are real pthreads, parked; exactly
// one holds the baton. Preemption points are basic blocks of library code, delivered by the
// compiler's trace-pc-guard callbacks (this file and sched.cpp are never instrumented).
#pragma once
#include <stdint.h>

#include <functional>
#include <string>
#include <vector>

namespace sim {
namespace sched {

struct Preemption {
  int task;       // the task that is interrupted …
  uint64_t at;    // … when its at-th library basic-block event occurs (1-based)
  int to;         // the task that receives the baton (if finished: the next live one)
  uint64_t quantum = 0;  // if > 0: after that many of its own events, `to` hands the baton back
  uint32_t id = 0;       // position in the schedule handed to runParked (filled in by it)
};

struct TaskReport {
  uint64_t events = 0;               // library basic-block events executed by the task
  std::vector<uint32_t> guardSeq;    // guard id of every event (recorded on request)
  std::string error;                 // exception text, empty when the task completed
  std::string errorClass;
};

struct Result {
  std::vector<TaskReport> tasks;
  uint64_t switches = 0;
  uint64_t preemptionsFired = 0;
  std::vector<uint32_t> firedOrder;  // ids of the preemptions that fired, in the order they fired
};

// number of library guards known (0 when the binary is not instrumented)
uint32_t libraryGuards();
uint32_t totalGuards();
uintptr_t guardPc(uint32_t id);  // program counter of a guard (debugging aid)
std::string guardSymbol(uint32_t id);

// Runs the tasks as parked threads under the given schedule (deterministic).
// record: keep the guard sequence of every task.
Result runParked(const std::vector<std::function<void()>>& tasks, const std::vector<Preemption>& schedule, bool record);

// Runs the tasks one after the other on fresh threads (serial baseline).
Result runSerial(const std::vector<std::function<void()>>& tasks, bool record);

// Runs the tasks on free-running threads (auxiliary TSan stage; not deterministic).
Result runFree(const std::vector<std::function<void()>>& tasks);

}  // namespace sched
}  // namespace sim
