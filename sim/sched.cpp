// Scheduler + coverage callbacks. Compiled WITHOUT -fsanitize-coverage.
#include "sched.hpp"

#include <dlfcn.h>
#include <pthread.h>
#include <string.h>

#include <condition_variable>
#include <exception>
#include <mutex>
#include <thread>

#include "kernel.hpp"

namespace sim {
namespace sched {

namespace {

uint32_t g_nGuards = 0;
uint32_t g_nLib = 0;
// indexed by guard id (1-based). The coverage callbacks run from module constructors, possibly
// before this file's globals are constructed: keep the table behind a function-local static.
std::vector<uintptr_t>& pcTable() {
  static std::vector<uintptr_t>* v = new std::vector<uintptr_t>();
  return *v;
}
std::vector<uint8_t>& isLibTable() {
  static std::vector<uint8_t>* v = new std::vector<uint8_t>();
  return *v;
}
#define g_isLib (isLibTable())

struct Runtime {
  std::mutex m;
  std::condition_variable cv;
  int current = -1;
  int ntasks = 0;
  std::vector<bool> done;
  std::vector<uint64_t> events;
  std::vector<std::vector<Preemption>> perTask;  // sorted by `at`
  std::vector<size_t> nextPre;
  std::vector<uint64_t> quantumLeft;  // per task: events until it hands the baton back (0: none)
  std::vector<int> giveBackTo;
  std::vector<TaskReport>* reports = nullptr;
  bool record = false;
  bool parked = false;
  uint64_t switches = 0, fired = 0;
  std::vector<uint32_t> firedOrder;
};
Runtime* g_rt = nullptr;
thread_local int t_task = -1;  // task index of this thread, -1 outside tasks
// > 0 while this thread runs the initialiser of a guarded function-local static (between
// __cxa_guard_acquire returning 1 and __cxa_guard_release/abort). No preemption in there: any other
// thread that needs the same static would block in the C++ runtime, which a serialising scheduler
// cannot see - and C++ makes that region atomic for them anyway.
thread_local int t_staticInit = 0;

int nextLive(Runtime& rt, int from) {
  for (int k = 1; k <= rt.ntasks; k++) {
    int c = (from + k) % rt.ntasks;
    if (!rt.done[size_t(c)])
      return c;
  }
  return -1;
}

// hand the baton to `to` and wait until it comes back (called with rt.m NOT held)
void handOver(Runtime& rt, int me, int to) {
  std::unique_lock<std::mutex> lk(rt.m);
  if (to == me || to < 0)
    return;
  rt.current = to;
  rt.switches++;
  rt.cv.notify_all();
  rt.cv.wait(lk, [&] { return rt.current == me; });
}

}  // namespace

uint32_t libraryGuards() {
  return g_nLib;
}
uint32_t totalGuards() {
  return g_nGuards;
}
uintptr_t guardPc(uint32_t id) {
  return id < pcTable().size() ? pcTable()[id] : 0;
}
std::string guardSymbol(uint32_t id) {
  Dl_info info;
  uintptr_t pc = guardPc(id);
  if (pc && dladdr(reinterpret_cast<void*>(pc), &info) && info.dli_sname)
    return std::string(info.dli_sname) + "+" + std::to_string(pc - reinterpret_cast<uintptr_t>(info.dli_saddr));
  return "?";
}

static void onGuard(uint32_t id) {
  Runtime* rt = g_rt;
  int me = t_task;
  if (!rt || me < 0)
    return;
  if (id >= g_isLib.size() || !g_isLib[id])
    return;
  uint64_t n = ++rt->events[size_t(me)];
  if (rt->record)
    (*rt->reports)[size_t(me)].guardSeq.push_back(id);
  if (!rt->parked)
    return;
  if (t_staticInit > 0)
    return;  // counted, never interrupted (see t_staticInit)
  if (rt->quantumLeft[size_t(me)] && --rt->quantumLeft[size_t(me)] == 0) {
    int back = rt->giveBackTo[size_t(me)];
    {
      std::lock_guard<std::mutex> lk(rt->m);
      if (back < 0 || back >= rt->ntasks || rt->done[size_t(back)] || back == me)
        back = -1;
    }
    if (back >= 0)
      handOver(*rt, me, back);
  }
  auto& list = rt->perTask[size_t(me)];
  size_t& ix = rt->nextPre[size_t(me)];
  if (ix < list.size() && list[ix].at == n) {
    int to = list[ix].to;
    uint64_t quantum = list[ix].quantum;
    uint32_t pid = list[ix].id;
    ix++;
    while (ix < list.size() && list[ix].at == n)
      ix++;
    {
      std::lock_guard<std::mutex> lk(rt->m);
      if (to < 0 || to >= rt->ntasks || rt->done[size_t(to)] || to == me)
        to = nextLive(*rt, me);
      if (to >= 0) {
        rt->fired++;
        rt->firedOrder.push_back(pid);
        rt->quantumLeft[size_t(to)] = quantum;
        rt->giveBackTo[size_t(to)] = me;
      }
    }
    handOver(*rt, me, to);
  }
}

static void taskBody(Runtime& rt, int me, const std::function<void()>& f) {
  t_task = me;
  if (rt.parked) {
    std::unique_lock<std::mutex> lk(rt.m);
    rt.cv.wait(lk, [&] { return rt.current == me; });
  }
  try {
    f();
  } catch (const Violation& v) {
    (*rt.reports)[size_t(me)].error = v.msg;
    (*rt.reports)[size_t(me)].errorClass = v.cls;
  } catch (const std::exception& e) {
    (*rt.reports)[size_t(me)].error = e.what();
    (*rt.reports)[size_t(me)].errorClass = "harness";
  }
  t_task = -1;
  if (rt.parked) {
    std::lock_guard<std::mutex> lk(rt.m);
    rt.done[size_t(me)] = true;
    rt.current = nextLive(rt, me);
    rt.cv.notify_all();
  }
}

static Result finishResult(Runtime& rt, std::vector<TaskReport>& reports) {
  Result r;
  for (size_t i = 0; i < reports.size(); i++)
    reports[i].events = rt.events[i];
  r.tasks = std::move(reports);
  r.switches = rt.switches;
  r.preemptionsFired = rt.fired;
  r.firedOrder = rt.firedOrder;
  return r;
}

Result runParked(const std::vector<std::function<void()>>& tasks, const std::vector<Preemption>& schedule, bool record) {
  Runtime rt;
  std::vector<TaskReport> reports(tasks.size());
  rt.ntasks = int(tasks.size());
  rt.done.assign(tasks.size(), false);
  rt.events.assign(tasks.size(), 0);
  rt.perTask.assign(tasks.size(), {});
  rt.nextPre.assign(tasks.size(), 0);
  rt.quantumLeft.assign(tasks.size(), 0);
  rt.giveBackTo.assign(tasks.size(), -1);
  for (size_t i = 0; i < schedule.size(); i++) {
    Preemption p = schedule[i];
    p.id = uint32_t(i);
    if (p.task >= 0 && p.task < rt.ntasks && p.at > 0)
      rt.perTask[size_t(p.task)].push_back(p);
  }
  for (auto& l : rt.perTask)
    std::stable_sort(l.begin(), l.end(), [](const Preemption& a, const Preemption& b) { return a.at < b.at; });
  rt.reports = &reports;
  rt.record = record;
  rt.parked = true;
  g_rt = &rt;
  std::vector<std::thread> th;
  for (size_t i = 0; i < tasks.size(); i++)
    th.emplace_back([&rt, i, &tasks] { taskBody(rt, int(i), tasks[i]); });
  {
    std::lock_guard<std::mutex> lk(rt.m);
    rt.current = 0;
    rt.cv.notify_all();
  }
  for (auto& t : th)
    t.join();
  g_rt = nullptr;
  return finishResult(rt, reports);
}

Result runSerial(const std::vector<std::function<void()>>& tasks, bool record) {
  Runtime rt;
  std::vector<TaskReport> reports(tasks.size());
  rt.ntasks = int(tasks.size());
  rt.done.assign(tasks.size(), false);
  rt.events.assign(tasks.size(), 0);
  rt.perTask.assign(tasks.size(), {});
  rt.nextPre.assign(tasks.size(), 0);
  rt.quantumLeft.assign(tasks.size(), 0);
  rt.giveBackTo.assign(tasks.size(), -1);
  rt.reports = &reports;
  rt.record = record;
  rt.parked = false;
  g_rt = &rt;
  for (size_t i = 0; i < tasks.size(); i++) {
    std::thread t([&rt, i, &tasks] { taskBody(rt, int(i), tasks[i]); });
    t.join();
  }
  g_rt = nullptr;
  return finishResult(rt, reports);
}

Result runFree(const std::vector<std::function<void()>>& tasks) {
  Runtime rt;
  std::vector<TaskReport> reports(tasks.size());
  rt.ntasks = int(tasks.size());
  rt.done.assign(tasks.size(), false);
  rt.events.assign(tasks.size(), 0);
  rt.reports = &reports;
  // g_rt stays null: no counting, no parking; threads run as the OS schedules them
  std::vector<std::thread> th;
  for (size_t i = 0; i < tasks.size(); i++)
    th.emplace_back([&rt, i, &tasks] { taskBody(rt, int(i), tasks[i]); });
  for (auto& t : th)
    t.join();
  return finishResult(rt, reports);
}

}  // namespace sched
}  // namespace sim

// ---- compiler-inserted callbacks (clang -fsanitize-coverage=trace-pc-guard,pc-table)
extern "C" void __sanitizer_cov_trace_pc_guard_init(uint32_t* start, uint32_t* stop) {
  if (start == stop || *start)
    return;
  for (uint32_t* g = start; g < stop; g++)
    *g = ++sim::sched::g_nGuards;
  sim::sched::isLibTable().resize(sim::sched::g_nGuards + 1, 0);
}

extern "C" void __sanitizer_cov_pcs_init(const uintptr_t* beg, const uintptr_t* end) {
  // one (pc, flags) pair per guard, in guard order within this module
  static uint32_t next = 1;
  for (const uintptr_t* p = beg; p < end; p += 2) {
    uint32_t id = next++;
    if (id >= sim::sched::isLibTable().size())
      sim::sched::isLibTable().resize(id + 1, 0);
    if (id >= sim::sched::pcTable().size())
      sim::sched::pcTable().resize(id + 1, 0);
    sim::sched::pcTable()[id] = p[0];
    Dl_info info;
    if (dladdr(reinterpret_cast<void*>(p[0]), &info) && info.dli_sname) {
      const char* n = info.dli_sname;
      // functions of namespace ArduinoJson (members and free functions), not harness templates
      // (plus the one harness shim whose body is, after inlining, library code: see conc.cpp compatTask)
      if (strncmp(n, "_ZN11ArduinoJson", 16) == 0 || strncmp(n, "_ZNK11ArduinoJson", 17) == 0 ||
          strncmp(n, "_ZN3sim4conc10compatTask", 24) == 0) {
        sim::sched::isLibTable()[id] = 1;
        sim::sched::g_nLib++;
      }
    }
  }
}

extern "C" void __sanitizer_cov_trace_pc_guard(uint32_t* guard) {
  sim::sched::onGuard(*guard);
}

// ---- guarded static initialisation (linked with -Wl,--wrap=__cxa_guard_acquire,...): the real functions do
// the work; the scheduler only learns that the calling task is inside an initialiser
extern "C" int __real___cxa_guard_acquire(long long* g);
extern "C" void __real___cxa_guard_release(long long* g);
extern "C" void __real___cxa_guard_abort(long long* g);
extern "C" int __wrap___cxa_guard_acquire(long long* g) {
  int r = __real___cxa_guard_acquire(g);
  if (r)
    sim::sched::t_staticInit++;
  return r;
}
extern "C" void __wrap___cxa_guard_release(long long* g) {
  if (sim::sched::t_staticInit > 0)
    sim::sched::t_staticInit--;
  __real___cxa_guard_release(g);
}
extern "C" void __wrap___cxa_guard_abort(long long* g) {
  if (sim::sched::t_staticInit > 0)
    sim::sched::t_staticInit--;
  __real___cxa_guard_abort(g);
}
