// Read-only inspector of the concrete document state (needs the friend hook,
// -DBBLANCHON_ARDUINOJSON_VERIF). Never modifies anything.
#pragma once
#include "aj.hpp"

#include <set>

#include "kernel.hpp"

namespace verif {

namespace aj = ArduinoJson;
namespace ajd = ArduinoJson::detail;

struct PoolGeometry {
  size_t pools = 0;       // pools in the table (including pools whose allocation failed)
  size_t tableCapacity = 0;
  size_t maxPools = 0;
  size_t usedSlots = 0;   // slots handed out by the pools (bump pointer)
  size_t slotCapacity = 0;  // slots the pools in the table can hold (a pool cut short by shrinkToFit holds fewer)
  size_t freeListLen = 0;
  size_t deadPools = 0;   // pools without storage (their allocation failed)
  size_t lastPoolUsage = 0, lastPoolCapacity = 0;
  bool inlineTable = true;
  size_t stringNodes = 0;
  size_t stringBytes = 0;
  bool overflowed = false;
};

struct Inspector {
  using SlotId = ajd::SlotId;
  static constexpr SlotId NULLSLOT = ajd::NULL_SLOT;

  static const ajd::ResourceManager& rm(const aj::JsonDocument& d) {
    return d.resources_;
  }
  static const ajd::VariantData& root(const aj::JsonDocument& d) {
    return d.data_;
  }

  static PoolGeometry geometry(const aj::JsonDocument& d) {
    PoolGeometry g;
    auto& r = rm(d);
    auto& pl = r.variantPools_;
    g.pools = pl.count_;
    g.tableCapacity = pl.capacity_;
    g.maxPools = pl.maxPools;
    g.inlineTable = pl.pools_ == pl.preallocatedPools_;
    for (size_t i = 0; i < pl.count_; i++) {
      g.usedSlots += pl.pools_[i].usage_;
      g.slotCapacity += pl.pools_[i].capacity_;
      if (!pl.pools_[i].slots_)
        g.deadPools++;
    }
    if (pl.count_) {
      g.lastPoolUsage = pl.pools_[pl.count_ - 1].usage_;
      g.lastPoolCapacity = pl.pools_[pl.count_ - 1].capacity_;
    }
    g.overflowed = r.overflowed_;
    for (auto n = r.stringPool_.strings_; n; n = n->next) {
      g.stringNodes++;
      g.stringBytes += n->length;
      if (g.stringNodes > 10000000)
        break;
    }
    // free list
    SlotId id = pl.freeList_;
    while (id != NULLSLOT && g.freeListLen <= g.usedSlots) {
      g.freeListLen++;
      auto p = slotPtr(d, id);
      if (!p)
        break;
      id = *reinterpret_cast<const SlotId*>(p);
    }
    return g;
  }

  // address of a slot, or null when the id does not designate a handed-out slot
  static const void* slotPtr(const aj::JsonDocument& d, SlotId id) {
    auto& pl = rm(d).variantPools_;
    if (id == NULLSLOT)
      return nullptr;
    size_t pool = size_t(id) / ARDUINOJSON_POOL_CAPACITY;
    size_t idx = size_t(id) % ARDUINOJSON_POOL_CAPACITY;
    if (pool >= pl.count_)
      return nullptr;
    auto& p = pl.pools_[pool];
    if (!p.slots_ || idx >= p.usage_)
      return nullptr;
    return p.slots_ + idx;
  }

  struct ShapeReport {
    size_t linked = 0;      // slots reachable from the root (values, keys, extensions)
    size_t freeList = 0;
    size_t leaked = 0;      // handed out, neither reachable nor free (legal only after a failed allocation)
    size_t stringUsers = 0;
    uint64_t stateHash = 0; // canonical: ids renumbered in walk order
    std::string refMismatch; // first string node whose count differs from its users
    std::string refUnderflow; // first string node with fewer references than users (never legitimate)
  };

  // Checks the tree-shape invariants; throws sim::Violation(cls, …).
  static ShapeReport checkShape(const aj::JsonDocument& d, const char* cls, bool leaksAllowed) {
    ShapeReport rep;
    auto& r = rm(d);
    auto& pl = r.variantPools_;
    size_t total = 0;
    for (size_t i = 0; i < pl.count_; i++) {
      auto& p = pl.pools_[i];
      if (p.usage_ > p.capacity_)
        sim::violate(cls, "inspector: pool usage above capacity");
      if (!p.slots_ && p.usage_)
        sim::violate(cls, "inspector: pool without storage has usage");
      size_t cap = ARDUINOJSON_POOL_CAPACITY;
      if (p.capacity_ > cap)
        sim::violate(cls, "inspector: pool capacity above ARDUINOJSON_POOL_CAPACITY");
      total += p.usage_;
    }
    if (pl.count_ > pl.capacity_)
      sim::violate(cls, "inspector: more pools than the table holds");
    if (size_t(pl.capacity_) > size_t(pl.maxPools) && !(pl.pools_ == pl.preallocatedPools_))
      sim::violate(cls, "inspector: pool table larger than maxPools");
    // every slot id must stay below NULL_SLOT: count*capacity may not reach it
    if (pl.count_ && (size_t(pl.count_) - 1) * ARDUINOJSON_POOL_CAPACITY +
                             (pl.pools_[pl.count_ - 1].usage_) > size_t(NULLSLOT))
      sim::violate(cls, "inspector: a slot id reaches NULL_SLOT (identifier wrapped)");

    std::set<size_t> seen;  // slot ids visited (ids, not addresses)
    std::map<const void*, size_t> stringUsers;
    sim::Transcript h;
    std::map<size_t, size_t> renum;
    walkVariant(d, &root(d), cls, seen, stringUsers, h, renum, 0, total);
    rep.linked = seen.size();
    rep.stateHash = h.h;

    // free list: ids valid, distinct, disjoint from linked slots
    SlotId id = pl.freeList_;
    std::set<size_t> freeSeen;
    while (id != NULLSLOT) {
      auto p = slotPtr(d, id);
      if (!p)
        sim::violate(cls, "inspector: free list holds an id that is not a handed-out slot");
      if (seen.count(id))
        sim::violate(cls, "inspector: slot " + std::to_string(id) + " is both linked and on the free list");
      if (!freeSeen.insert(id).second)
        sim::violate(cls, "inspector: free list has a cycle");
      id = *reinterpret_cast<const SlotId*>(p);
    }
    rep.freeList = freeSeen.size();
    if (rep.linked + rep.freeList > total)
      sim::violate(cls, "inspector: more slots in use than handed out");
    rep.leaked = total - rep.linked - rep.freeList;
    (void)leaksAllowed;  // the caller judges rep.leaked / rep.refMismatch (they belong to C06)

    // string pool: each node's reference count = number of values using it
    size_t nodes = 0;
    for (auto n = r.stringPool_.strings_; n; n = n->next) {
      nodes++;
      if (nodes > total + 1 + 1000000)
        sim::violate(cls, "inspector: string list does not end");
      size_t users = 0;
      auto it = stringUsers.find(n->data);
      if (it != stringUsers.end()) {
        users = it->second;
        stringUsers.erase(it);
      }
      rep.stringUsers += users;
      if (n->references != users && rep.refMismatch.empty())
        rep.refMismatch = "string node reference count " + std::to_string(n->references) + " != users " +
                          std::to_string(users);
      if (n->references < users && rep.refUnderflow.empty())
        rep.refUnderflow = "string node has " + std::to_string(n->references) + " reference(s) but " + std::to_string(users) +
                           " user(s): it will be released while still in use";
    }
    if (!stringUsers.empty())
      sim::violate(cls, "inspector: a value uses a string that is not in the document's string pool");
    return rep;
  }

 private:
  static void walkVariant(const aj::JsonDocument& d, const ajd::VariantData* v, const char* cls,
                          std::set<size_t>& seen, std::map<const void*, size_t>& stringUsers, sim::Transcript& h,
                          std::map<size_t, size_t>& renum, int depth, size_t total) {
    if (depth > 400)
      sim::violate(cls, "inspector: depth > 400 (cycle)");
    uint8_t type = uint8_t(v->type_);
    h.u(type);
    if (type & uint8_t(ajd::VariantTypeBits::OwnedStringBit)) {
      auto node = v->content_.asOwnedString;
      stringUsers[node->data]++;
      h.u(sim::hashBytes(node->data, node->length));
    }
#if ARDUINOJSON_USE_EXTENSIONS
    if (type & uint8_t(ajd::VariantTypeBits::ExtensionBit)) {
      SlotId e = v->content_.asSlotId;
      if (!slotPtr(d, e))
        sim::violate(cls, "inspector: extension id is not a handed-out slot");
      if (!seen.insert(e).second)
        sim::violate(cls, "inspector: extension slot used twice");
      h.u(*reinterpret_cast<const uint64_t*>(slotPtr(d, e)));
    }
#endif
    switch (v->type_) {
      case ajd::VariantType::Boolean:
        h.u(v->content_.asBoolean);
        break;
      case ajd::VariantType::Int32:
      case ajd::VariantType::Uint32:
      case ajd::VariantType::Float:
        h.u(v->content_.asUint32);
        break;
      case ajd::VariantType::LinkedString:
        h.u(sim::hashBytes(v->content_.asLinkedString, strlen(v->content_.asLinkedString)));
        break;
      default:
        break;
    }
    if (type & uint8_t(ajd::VariantTypeBits::CollectionMask)) {
      auto& c = v->content_.asCollection;
      SlotId id = c.head_;
      SlotId last = NULLSLOT;
      size_t n = 0;
      while (id != NULLSLOT) {
        auto p = reinterpret_cast<const ajd::VariantData*>(slotPtr(d, id));
        if (!p)
          sim::violate(cls, "inspector: collection links to an id that is not a handed-out slot");
        if (!seen.insert(id).second)
          sim::violate(cls, "inspector: slot " + std::to_string(id) + " linked twice (cycle or sharing)");
        if (!renum.count(id)) {
          size_t k = renum.size();
          renum[id] = k;
        }
        n++;
        if (n > total + 1)
          sim::violate(cls, "inspector: collection longer than the slots handed out");
        walkVariant(d, p, cls, seen, stringUsers, h, renum, depth + 1, total);
        last = id;
        id = p->next_;
      }
      if (c.tail_ != last)
        sim::violate(cls, "inspector: tail does not designate the last link");
      if (v->type_ == ajd::VariantType::Object && (n % 2) != 0)
        sim::violate(cls, "inspector: object with an odd number of slots (member without key or value)");
      h.u(n);
    }
  }
};

}  // namespace verif
