// Reader seam: the same bytes delivered to deserializeJson / deserializeMsgPack through
// every kind of input the API accepts, with byte and call accounting at the seam.
#pragma once
#include <istream>
#include <streambuf>
#include <string_view>

#include "aj.hpp"
#include "kernel.hpp"

namespace sim {

enum class RK : uint8_t {
  CPtr,     // const char*            zero-terminated (JSON only)
  MPtr,     // char*                  zero-terminated (JSON only)
  CPtrN,    // const char* + size
  UCPtrN,   // unsigned char* + size
  Std,      // std::string
  Sv,       // std::string_view
  IStream,  // std::istream over a simulated streambuf
  Custom,   // custom reader: int read(); size_t readBytes(char*, size_t)
  AStream,  // Arduino Stream
  AString,  // Arduino String      zero-terminated by construction (JSON only)
  Flash,    // const __FlashStringHelper*   zero-terminated (JSON only)
  FlashN,   // const __FlashStringHelper* + size
  Variant,  // a JsonVariant of another document holding the text (JSON only)
  COUNT
};

inline const char* rkName(RK k) {
  static const char* n[] = {"cptr",   "mptr",    "cptr_n",  "ucptr_n", "std",     "sv",     "istream",
                            "custom", "astream", "astring", "flash",   "flash_n", "variant"};
  return n[int(k)];
}
inline RK rkFromName(const std::string& s) {
  for (int i = 0; i < int(RK::COUNT); i++)
    if (s == rkName(RK(i)))
      return RK(i);
  throw HarnessError("unknown reader kind " + s);
}
inline bool rkZeroTerminated(RK k) {
  return k == RK::CPtr || k == RK::MPtr || k == RK::AString || k == RK::Flash || k == RK::Variant;
}
inline bool rkStream(RK k) {
  return k == RK::IStream || k == RK::Custom || k == RK::AStream;
}

struct ReaderStats {
  size_t available = 0;
  size_t handedOut = 0;     // bytes delivered to the library (stream kinds)
  uint64_t calls = 0;       // read()/readBytes()/underflow calls
  uint64_t callsAfterEnd = 0;  // calls made after the end of input had been reported
  bool endReported = false;
  uintptr_t minStack = UINTPTR_MAX;  // lowest stack address seen inside a call-out
  uintptr_t baseStack = 0;
  bool shortReadFired = false;
  void noteStack() {
    char marker;
    uintptr_t a = reinterpret_cast<uintptr_t>(&marker);
    if (a < minStack)
      minStack = a;
  }
};

// ---- the simulated transports

class SimCustomReader {
 public:
  SimCustomReader(const std::string& bytes, ReaderStats& st, size_t shortAt = SIZE_MAX)
      : s_(bytes), st_(st), shortAt_(shortAt) {}
  SimCustomReader(const SimCustomReader&) = delete;
  int read() {
    st_.calls++;
    st_.noteStack();
    if (p_ >= s_.size()) {
      if (st_.endReported)
        st_.callsAfterEnd++;
      st_.endReported = true;
      return -1;
    }
    st_.handedOut++;
    return (unsigned char)s_[p_++];
  }
  size_t readBytes(char* buffer, size_t length) {
    st_.calls++;
    st_.noteStack();
    size_t n = s_.size() - p_;
    if (n > length)
      n = length;
    // transport fault: the peer stalls, the call times out with fewer bytes than asked for
    if (shortAt_ != SIZE_MAX && p_ <= shortAt_ && shortAt_ < p_ + n && n > 0) {
      n = shortAt_ - p_;
      shortAt_ = SIZE_MAX;
      st_.shortReadFired = true;
    }
    if (n < length) {
      if (st_.endReported && n == 0)
        st_.callsAfterEnd++;
      st_.endReported = true;
    }
    memcpy(buffer, s_.data() + p_, n);
    p_ += n;
    st_.handedOut += n;
    return n;
  }
  size_t position() const {
    return p_;
  }

 private:
  const std::string& s_;
  ReaderStats& st_;
  size_t p_ = 0;
  size_t shortAt_;
};

class SimArduinoStream : public Stream {
 public:
  SimArduinoStream(const std::string& bytes, ReaderStats& st, size_t shortAt = SIZE_MAX) : r_(bytes, st, shortAt) {}
  int read() override {
    return r_.read();
  }
  size_t readBytes(char* buffer, size_t length) override {
    return r_.readBytes(buffer, length);
  }
  size_t position() const {
    return r_.position();
  }

 private:
  SimCustomReader r_;
};

// std::streambuf that delivers the bytes in seeded chunks and accounts for what the
// stream actually consumed
class SimStreambuf : public std::streambuf {
 public:
  SimStreambuf(const std::string& bytes, ReaderStats& st, const std::vector<size_t>& chunks)
      : s_(bytes), st_(st), chunks_(chunks) {}
  // bytes the istream has consumed so far
  size_t position() const {
    return chunkStart_ + size_t(gptr() - eback());
  }

 protected:
  int_type underflow() override {
    st_.calls++;
    st_.noteStack();
    size_t pos = position();
    if (pos >= s_.size()) {
      if (st_.endReported)
        st_.callsAfterEnd++;
      st_.endReported = true;
      return traits_type::eof();
    }
    size_t n = chunks_.empty() ? s_.size() : chunks_[ci_++ % chunks_.size()];
    if (n == 0)
      n = 1;
    if (n > s_.size() - pos)
      n = s_.size() - pos;
    buf_.assign(s_.data() + pos, n);
    chunkStart_ = pos;
    count("fault.stream_chunk_delivered");
    setg(&buf_[0], &buf_[0], &buf_[0] + n);
    return traits_type::to_int_type(buf_[0]);
  }

 private:
  const std::string& s_;
  ReaderStats& st_;
  std::vector<size_t> chunks_;
  size_t ci_ = 0;
  size_t chunkStart_ = 0;
  std::string buf_;
};

// ---- exactly-sized input blocks (a one-byte over-read is an ASan report, not luck)
struct ExactBlock {
  char* p;
  size_t n;
  ExactBlock(const std::string& bytes, bool terminator) {
    n = bytes.size() + (terminator ? 1 : 0);
    p = static_cast<char*>(malloc(n ? n : 1));
    memcpy(p, bytes.data(), bytes.size());
    if (terminator)
      p[bytes.size()] = 0;
  }
  ~ExactBlock() {
    memset(p, 0xEE, n);
    free(p);
  }
  ExactBlock(const ExactBlock&) = delete;
};

struct DeserOpts {
  bool msgpack = false;
  int nestingLimit = -1;             // -1: default
  bool hasFilter = false;
  ArduinoJson::JsonVariantConst filter;
  ArduinoJson::JsonDocument* filterDoc = nullptr;  // when set: Filter(JsonDocument&) (shrinks its argument)
  bool filterFirst = true;           // order of the two options
  std::vector<size_t> chunks;        // istream chunking
  size_t shortReadAt = SIZE_MAX;     // custom / Arduino stream: one short readBytes
};

// what the kind will actually see of `bytes`
inline std::string visibleBytes(RK k, const std::string& bytes) {
  if (!rkZeroTerminated(k))
    return bytes;
  size_t z = bytes.find('\0');
  return z == std::string::npos ? bytes : bytes.substr(0, z);
}

inline ArduinoJson::DeserializationOption::Filter mkFilter(const DeserOpts& o) {
#if ARDUINOJSON_AUTO_SHRINK
  if (o.filterDoc)
    return ArduinoJson::DeserializationOption::Filter(*o.filterDoc);
#endif
  return ArduinoJson::DeserializationOption::Filter(o.filter);
}

template <typename TDst, typename TInput>
ArduinoJson::DeserializationError callDeser(const DeserOpts& o, TDst&& dst, TInput&& in) {
  using namespace ArduinoJson;
  using DeserializationOption::Filter;
  using DeserializationOption::NestingLimit;
  if (o.msgpack) {
    if (o.hasFilter && o.nestingLimit >= 0)
      return o.filterFirst ? deserializeMsgPack(dst, in, mkFilter(o), NestingLimit(uint8_t(o.nestingLimit)))
                           : deserializeMsgPack(dst, in, NestingLimit(uint8_t(o.nestingLimit)), mkFilter(o));
    if (o.hasFilter)
      return deserializeMsgPack(dst, in, mkFilter(o));
    if (o.nestingLimit >= 0)
      return deserializeMsgPack(dst, in, NestingLimit(uint8_t(o.nestingLimit)));
    return deserializeMsgPack(dst, in);
  }
  if (o.hasFilter && o.nestingLimit >= 0)
    return o.filterFirst ? deserializeJson(dst, in, mkFilter(o), NestingLimit(uint8_t(o.nestingLimit)))
                         : deserializeJson(dst, in, NestingLimit(uint8_t(o.nestingLimit)), mkFilter(o));
  if (o.hasFilter)
    return deserializeJson(dst, in, mkFilter(o));
  if (o.nestingLimit >= 0)
    return deserializeJson(dst, in, NestingLimit(uint8_t(o.nestingLimit)));
  return deserializeJson(dst, in);
}

template <typename TDst, typename TChar>
ArduinoJson::DeserializationError callDeserN(const DeserOpts& o, TDst&& dst, TChar* in, size_t n) {
  using namespace ArduinoJson;
  using DeserializationOption::Filter;
  using DeserializationOption::NestingLimit;
  if (o.msgpack) {
    if (o.hasFilter && o.nestingLimit >= 0)
      return o.filterFirst ? deserializeMsgPack(dst, in, n, mkFilter(o), NestingLimit(uint8_t(o.nestingLimit)))
                           : deserializeMsgPack(dst, in, n, NestingLimit(uint8_t(o.nestingLimit)), mkFilter(o));
    if (o.hasFilter)
      return deserializeMsgPack(dst, in, n, mkFilter(o));
    if (o.nestingLimit >= 0)
      return deserializeMsgPack(dst, in, n, NestingLimit(uint8_t(o.nestingLimit)));
    return deserializeMsgPack(dst, in, n);
  }
  if (o.hasFilter && o.nestingLimit >= 0)
    return o.filterFirst ? deserializeJson(dst, in, n, mkFilter(o), NestingLimit(uint8_t(o.nestingLimit)))
                         : deserializeJson(dst, in, n, NestingLimit(uint8_t(o.nestingLimit)), mkFilter(o));
  if (o.hasFilter)
    return deserializeJson(dst, in, n, mkFilter(o));
  if (o.nestingLimit >= 0)
    return deserializeJson(dst, in, n, NestingLimit(uint8_t(o.nestingLimit)));
  return deserializeJson(dst, in, n);
}

// Delivers `bytes` through kind `k`. `consumed` is meaningful for stream kinds only.
template <typename TDst>
ArduinoJson::DeserializationError deserializeVia(RK k, const DeserOpts& o, TDst&& dst, const std::string& bytes,
                                                 ReaderStats& st, ArduinoJson::Allocator* scratchAlloc) {
  using namespace ArduinoJson;
  st = ReaderStats();
  st.available = bytes.size();
  char base;
  st.baseStack = reinterpret_cast<uintptr_t>(&base);
  std::string vis = visibleBytes(k, bytes);
  switch (k) {
    case RK::CPtr: {
      ExactBlock b(vis, true);
      return callDeser(o, dst, static_cast<const char*>(b.p));
    }
    case RK::MPtr: {
      ExactBlock b(vis, true);
      return callDeser(o, dst, static_cast<char*>(b.p));
    }
    case RK::CPtrN: {
      ExactBlock b(bytes, false);
      return callDeserN(o, dst, static_cast<const char*>(b.p), bytes.size());
    }
    case RK::UCPtrN: {
      ExactBlock b(bytes, false);
      return callDeserN(o, dst, reinterpret_cast<unsigned char*>(b.p), bytes.size());
    }
    case RK::Std: {
      std::string* s = new std::string(bytes);
      s->shrink_to_fit();
      auto e = callDeser(o, dst, static_cast<const std::string&>(*s));
      delete s;
      return e;
    }
    case RK::Sv: {
      ExactBlock b(bytes, false);
      return callDeser(o, dst, std::string_view(b.p, bytes.size()));
    }
    case RK::IStream: {
      SimStreambuf sb(bytes, st, o.chunks);
      std::istream in(&sb);
      auto e = callDeser(o, dst, in);
      st.handedOut = sb.position();
      return e;
    }
    case RK::Custom: {
      SimCustomReader r(bytes, st, o.shortReadAt);
      return callDeser(o, dst, r);
    }
    case RK::AStream: {
      SimArduinoStream r(bytes, st, o.shortReadAt);
      return callDeser(o, dst, r);
    }
    case RK::AString: {
      ExactBlock b(vis, true);
      ::String* s = new ::String(b.p);
      auto e = callDeser(o, dst, static_cast<const ::String&>(*s));
      delete s;
      return e;
    }
    case RK::Flash: {
      ExactBlock b(vis, true);
      auto fp = reinterpret_cast<const __FlashStringHelper*>(convertPtrToFlash(b.p));
      return callDeser(o, dst, fp);
    }
    case RK::FlashN: {
      ExactBlock b(bytes, false);
      auto fp = reinterpret_cast<const __FlashStringHelper*>(convertPtrToFlash(b.p));
      return callDeserN(o, dst, fp, bytes.size());
    }
    case RK::Variant: {
      // the text lives in another document, as a copied string
      JsonDocument holder(scratchAlloc);
      holder.set(std::string(vis));
      if (holder.overflowed())
        throw HarnessError("holder document overflowed");
      if (holder.as<JsonVariantConst>().as<JsonString>().size() != vis.size())
        throw HarnessError("holder string truncated");
      JsonVariantConst hv = holder.as<JsonVariantConst>();
      return callDeser(o, dst, hv);
    }
    default:
      break;
  }
  throw HarnessError("deserializeVia: bad kind");
}

}  // namespace sim
