// `conc` scenario family: 2-4 caller threads, each with its own documents and its own
// history, optionally all reading one further document through const references. The
// seeded scheduler decides which thread runs at every basic block of library code.
// Oracle: each task's observables equal those of its history run alone.
#include <sys/wait.h>
#include <unistd.h>

#include <atomic>
#include <mutex>

#include "hist.hpp"
#include "sched.hpp"

namespace sim {
namespace xfer {
Plan generate(const std::string& mode, uint64_t seed, uint64_t run);
Outcome execute(const Plan& plan);
}  // namespace xfer
namespace sink {
Plan generate(const std::string& mode, uint64_t seed, uint64_t run);
Outcome execute(const Plan& plan);
}  // namespace sink
namespace conc {

using namespace ArduinoJson;

namespace {

std::mutex g_merge;
Stats g_taskStats;  // merged from the task threads

Sketches g_taskSketches;

void mergeStats() {
  std::lock_guard<std::mutex> lk(g_merge);
  for (auto& e : g_sketches.m)
    g_taskSketches.m[e.first].merge(e.second);
  g_sketches.m.clear();
  for (auto& e : g_stats.c) {
    if (e.first.size() > 4 && e.first.compare(e.first.size() - 4, 4, "_xor") == 0)
      g_taskStats.c[e.first] ^= e.second;
    else
      g_taskStats.c[e.first] += e.second;
  }
  g_stats.c.clear();
}

void buildShared(JsonVariant dst, const Val& v) {
  switch (v.k) {
    case K::Null:
      dst.set(nullptr);
      break;
    case K::Bool:
      dst.set(v.b);
      break;
    case K::Int:
      dst.set(v.i);
      break;
    case K::UInt:
      dst.set(v.u);
      break;
    case K::Float:
      dst.set(v.f);
      break;
    case K::Double:
      dst.set(v.d);
      break;
    case K::Str:
      dst.set(v.s);
      break;
    case K::Raw:
      dst.set(serialized(v.s));
      break;
    case K::Arr: {
      JsonArray a = dst.to<JsonArray>();
      for (auto& e : v.a)
        buildShared(a.add<JsonVariant>(), e);
      break;
    }
    case K::Obj: {
      JsonObject o = dst.to<JsonObject>();
      for (auto& m : v.o)
        buildShared(o[m.first].to<JsonVariant>(), m.second);
      break;
    }
  }
}

// ---- `cold` mode: library state that is created on first use (a function-local static behind the deprecated
// BasicJsonDocument<TAllocator>). Each stage of a plan (warm-up, serial baseline, interleaved run) uses an allocator
// type of its own, and the whole plan runs in a forked child, so every stage meets that state untouched.
}  // namespace
// (ColdAlloc and compatTask have external linkage on purpose: the scheduler recognises library code by the
// dynamic symbol of the enclosing function, and an instantiation over a type of an unnamed namespace has none)
template <int N>
struct ColdAlloc {
  static std::atomic<int> made;
  ColdAlloc() {
    made++;
  }
  void* allocate(size_t n) {
    return malloc(n);
  }
  void deallocate(void* p) {
    free(p);
  }
  void* reallocate(void* p, size_t n) {
    return realloc(p, n);
  }
};
template <int N>
std::atomic<int> ColdAlloc<N>::made{0};

int g_coldStage = 0;

// (the library code this calls is small enough to be inlined into it, and inlined basic blocks carry the name
// of the function they end up in: the scheduler treats this one function of the harness as library code)
template <int N>
uint64_t compatTask(const Op& head) {
  uint64_t seed = head.unum("vseed", 1);
  int n = int(head.num("n", 3));
  BasicJsonDocument<ColdAlloc<N>> doc(size_t(256));
  for (int i = 0; i < n; i++) {
    if (i & 1)
      doc["k" + std::to_string(i)] = seed + uint64_t(i);
    else
      doc["s" + std::to_string(i)] = std::to_string(seed * 31 + uint64_t(i));
  }
  std::string out;
  serializeJson(doc, out);
  BasicJsonDocument<ColdAlloc<N>> second(size_t(64));
  second.set(doc);
  std::string again;
  serializeJson(second, again);
  if (again != out)
    violate("C20:task-violation", "a copy made through BasicJsonDocument differs from its source");
  return hashStr(out);
}

namespace {
uint64_t compatDispatch(const Op& head) {
  switch (g_coldStage) {
    case 0:
      return compatTask<0>(head);
    case 1:
      return compatTask<1>(head);
    default:
      return compatTask<2>(head);
  }
}

int coldMade(int stage) {
  return stage == 0 ? ColdAlloc<0>::made.load() : stage == 1 ? ColdAlloc<1>::made.load() : ColdAlloc<2>::made.load();
}

struct TaskSpec {
  Plan plan;
  hist::Options opt;
  std::string family = "hist";
};

// one execution of a task's plan on the calling thread; returns the hash of its observables
uint64_t runTask(const TaskSpec& ts) {
  if (ts.family == "hist")
    return hist::runForObs(ts.plan, ts.opt);
  if (ts.family == "compat")
    return compatDispatch(ts.plan.head);
  Outcome o = ts.family == "xfer" ? xfer::execute(ts.plan) : sink::execute(ts.plan);
  if (!o.ok)
    throw Violation(o.cls, o.msg);
  return o.obs;
}

std::vector<TaskSpec> tasksOf(const Plan& plan, const JsonDocument* shared, const Val& sharedModel) {
  // the plan is a header, then per task a line "op=task id=<n> …options" followed by that task's hist operations,
  // then optional "op=pre t= at= to=" lines (an explicit schedule)
  std::vector<TaskSpec> tasks;
  for (auto& op : plan.ops) {
    if (op.name() == "task") {
      TaskSpec ts;
      ts.plan.head = op;
      ts.family = op.str("family", "hist");
      if (ts.family != "hist") {
        tasks.push_back(ts);
        continue;
      }
      ts.plan.head.set("family", "hist").set("mode", "free");
      ts.opt = hist::optionsOf(ts.plan.head);
      ts.opt.mode = "free";
      ts.opt.instBase = int(100 * (tasks.size() + 1));
      ts.opt.useDefaultAlloc = plan.head.num("defalloc") != 0;
      ts.opt.shared = shared;
      ts.opt.sharedModel = sharedModel;
      tasks.push_back(ts);
    } else if (op.name() == "pre") {
      continue;
    } else if (!tasks.empty()) {
      tasks.back().plan.ops.push_back(op);
    }
  }
  return tasks;
}

}  // namespace

static Outcome executeInProcess(const Plan& plan) {
  Outcome out;
  Transcript t;
  try {
    // the shared read-only document (built before any task starts, never modified afterwards)
    Val sharedModel = plan.head.has("shared") ? parseText(plan.head.str("shared")) : Val::null();
    normalise(sharedModel, kUseDouble);
    JsonDocument sharedDoc;
    buildShared(sharedDoc.to<JsonVariant>(), sharedModel);
    sharedDoc.shrinkToFit();
    const JsonDocument* shared = plan.head.has("shared") ? &sharedDoc : nullptr;
    std::string sharedBefore;
    serializeMsgPack(sharedDoc, sharedBefore);
    uint64_t shapeBefore = verif::Inspector::checkShape(sharedDoc, "C20:shared-document", false).stateHash;

    auto specs = tasksOf(plan, shared, sharedModel);
    if (specs.empty())
      throw HarnessError("conc plan without tasks");
    size_t n = specs.size();
    std::vector<uint64_t> obsSerial(n, 0), obsConc(n, 0);
    auto mk = [&](std::vector<uint64_t>& sinkObs) {
      std::vector<std::function<void()>> fs;
      for (size_t i = 0; i < n; i++)
        fs.push_back([&, i] {
          struct Merge {
            ~Merge() {
              mergeStats();
            }
          } m;
          sinkObs[i] = runTask(specs[i]);
        });
      return fs;
    };
    auto raise = [&](const sched::Result& r, const char* stage) {
      for (size_t i = 0; i < r.tasks.size(); i++)
        if (!r.tasks[i].error.empty()) {
          if (r.tasks[i].errorClass == "harness")
            throw HarnessError(std::string(stage) + " task " + std::to_string(i) + ": " + r.tasks[i].error);
          // under interleaving a task-local violation is itself a C20 finding (it passed alone)
          std::string cls = std::string(stage) == "serial" ? r.tasks[i].errorClass : "C20:task-violation";
          violate(cls, std::string(stage) + " task " + std::to_string(i) + " [" + r.tasks[i].errorClass + "] " + r.tasks[i].error);
        }
    };

    std::string mode = plan.head.str("mode", "parked");
    if (mode == "free") {
      // auxiliary stage: free-running threads (meaningful under ThreadSanitizer only)
      auto fs = mk(obsConc);
      auto serial = sched::runSerial(mk(obsSerial), false);
      raise(serial, "serial");
      auto r = sched::runFree(fs);
      raise(r, "free-running");
      for (size_t i = 0; i < n; i++)
        if (obsSerial[i] != obsConc[i])
          violate("C20:serial-equivalence", "free-running task " + std::to_string(i) + " observed something else than when run alone");
      out.steps = n;
    } else {
      // 1. serial baseline, recording which library basic blocks each task executes
      bool explicitSchedule = false;
      std::vector<sched::Preemption> schedule;
      for (auto& op : plan.ops)
        if (op.name() == "pre") {
          explicitSchedule = true;
          schedule.push_back({int(op.num("t")), op.unum("at"), int(op.num("to", -1)), op.unum("q", 0)});
        }
      // warm-up: lazily initialised function-local statics of the library execute extra basic
      // blocks the first time round; without this a plan would number its events differently in
      // a fresh process and in a long-lived worker
      {
        std::vector<uint64_t> obsWarm(n, 0);
        g_coldStage = 0;
        auto warm = sched::runSerial(mk(obsWarm), false);
        raise(warm, "serial");
      }
      g_coldStage = 1;
      auto serial = sched::runSerial(mk(obsSerial), !explicitSchedule);
      raise(serial, "serial");
      g_coldStage = 2;
      uint64_t totalEvents = 0;
      for (auto& tr : serial.tasks)
        totalEvents += tr.events;
      if (sched::libraryGuards() == 0)
        throw HarnessError("conc: binary is not instrumented (no library guards)");
      // 2. derive the schedule: guard first, then occurrence, so that a rarely executed block is as
      //    likely to be interrupted as the hot loops
      if (!explicitSchedule && plan.head.num("dense")) {
        // dense: every distinct library basic block of every task is interrupted once, at a
        // seeded occurrence; the baton goes to a seeded other task
        Rng r(plan.head.unum("pseed", 1));
        for (size_t task = 0; task < n; task++) {
          auto& seq = serial.tasks[task].guardSeq;
          std::vector<std::vector<uint32_t>> occ(sched::totalGuards() + 2);
          for (size_t e = 0; e < seq.size(); e++)
            occ[seq[e]].push_back(uint32_t(e + 1));
          for (auto& o : occ) {
            if (o.empty())
              continue;
            uint64_t at = o[r.below(o.size())] + r.below(3);
            int to = int((task + 1 + r.below(n - 1)) % n);
            // the interrupting task runs for a bounded number of its own events, then hands back
            uint64_t q = r.chance(1, 3) ? 0 : 1 + r.below(r.chance(1, 2) ? 200 : 5000);
            schedule.push_back({int(task), at, to, q});
          }
        }
      } else if (!explicitSchedule) {
        Rng r(plan.head.unum("pseed", 1));
        size_t np = size_t(plan.head.unum("np", 8));
        for (size_t q = 0; q < np; q++) {
          int task = int(r.below(n));
          auto& seq = serial.tasks[size_t(task)].guardSeq;
          if (seq.empty())
            continue;
          uint64_t at;
          if (r.chance(3, 4)) {
            // pick a distinct guard uniformly, then one of its occurrences
            uint32_t g = seq[r.below(seq.size())];
            std::vector<uint32_t> distinct;
            {
              std::vector<uint8_t> seen(sched::totalGuards() + 2, 0);
              for (auto x : seq)
                if (!seen[x]) {
                  seen[x] = 1;
                  distinct.push_back(x);
                }
            }
            g = distinct[r.below(distinct.size())];
            std::vector<uint64_t> occ;
            for (size_t e = 0; e < seq.size(); e++)
              if (seq[e] == g)
                occ.push_back(e + 1);
            at = occ[r.below(occ.size())];
            // land just after the block, or a few events later (inside the same function)
            at += r.below(4);
          } else {
            at = 1 + r.below(seq.size());
          }
          int to = int(r.below(n));
          uint64_t quantum = r.chance(1, 2) ? 0 : 1 + r.below(r.chance(1, 2) ? 200 : 5000);
          schedule.push_back({task, at, to, quantum});
        }
      }
      // 3. the interleaved run; a violation carries the explicit schedule as its replay plan
      Plan derived = plan;
      derived.ops.erase(std::remove_if(derived.ops.begin(), derived.ops.end(), [](const Op& o) { return o.name() == "pre"; }),
                        derived.ops.end());
      std::string schedText;
      for (auto& p : schedule) {
        Op o = mkop("pre");
        o.set("t", p.task).setu("at", p.at).set("to", p.to).setu("q", p.quantum);
        derived.ops.push_back(o);
        schedText += " (t" + std::to_string(p.task) + "@" + std::to_string(p.at) + "->t" + std::to_string(p.to) + ")";
      }
      try {
        auto conc = sched::runParked(mk(obsConc), schedule, false);
        // the replay plan lists the preemptions that actually fired, in the order they fired (the others
        // had no effect): a prefix of that list is "the same run, serial from there on"
        derived.ops.erase(std::remove_if(derived.ops.begin(), derived.ops.end(), [](const Op& o) { return o.name() == "pre"; }),
                          derived.ops.end());
        for (uint32_t id : conc.firedOrder) {
          const auto& p = schedule[id];
          Op o = mkop("pre");
          o.set("t", p.task).setu("at", p.at).set("to", p.to).setu("q", p.quantum);
          derived.ops.push_back(o);
        }
        raise(conc, "interleaved");
        if (mode == "cold") {
          // run one after the other, the tasks create exactly one allocator object per allocator type
          if (coldMade(1) > 1)
            throw HarnessError("cold: the serial baseline created " + std::to_string(coldMade(1)) + " allocator objects");
          if (coldMade(2) > 1)
            violate("C20:global-state", "library state created on first use was created " + std::to_string(coldMade(2)) +
                                            " times under interleaving (once when the tasks run one after the other); schedule:" +
                                            schedText);
          count("conc.cold_first_use_checked");
          if (getenv("SIM_CONC_DEBUG"))
            fprintf(stderr, "COLD made=%d/%d/%d fired=%llu switches=%llu\n", coldMade(0), coldMade(1), coldMade(2),
                    (unsigned long long)conc.preemptionsFired, (unsigned long long)conc.switches);
        }
        for (size_t i = 0; i < n; i++) {
          if (conc.tasks[i].events != serial.tasks[i].events)
            count("conc.event_count_differs");
          if (obsSerial[i] != obsConc[i])
            violate("C20:serial-equivalence", "task " + std::to_string(i) +
                                                  " observed something else than when its history runs alone; schedule:" + schedText);
        }
        if (getenv("SIM_CONC_DUMP")) {
          for (size_t i = 0; i < n; i++) {
            std::string path = std::string(getenv("SIM_CONC_DUMP")) + "/seq-" + plan.head.str("run") + "-" + std::to_string(i) + ".txt";
            FILE* f = fopen(path.c_str(), "w");
            for (auto g : serial.tasks[i].guardSeq)
              fprintf(f, "%u %s\n", g, sched::guardSymbol(g).c_str());
            fclose(f);
          }
        }
        if (getenv("SIM_CONC_DEBUG")) {
          std::string d = "CONCDBG run=" + plan.head.str("run") + " sw=" + std::to_string(conc.switches) + " fired=" +
                          std::to_string(conc.preemptionsFired) + " sched=" + std::to_string(schedule.size());
          for (size_t i = 0; i < n; i++)
            d += " e" + std::to_string(i) + "=" + std::to_string(serial.tasks[i].events) + "/" + std::to_string(conc.tasks[i].events) +
                 " o=" + std::to_string(obsConc[i] % 100000);
          uint64_t sh = 0;
          for (auto& p : schedule)
            sh = mix64(sh ^ (uint64_t(p.task) << 48) ^ (p.at << 8) ^ uint64_t(p.to + 1));
          d += " schedhash=" + std::to_string(sh % 1000000);
          for (size_t i = 0; i < n; i++) {
            uint64_t gh = 0;
            for (auto g : serial.tasks[i].guardSeq)
              gh = mix64(gh ^ g);
            d += " g" + std::to_string(i) + "=" + std::to_string(gh % 1000000) + "/" + std::to_string(serial.tasks[i].guardSeq.size());
          }
          printf("%s\n", d.c_str());
        }
        std::lock_guard<std::mutex> lk(g_merge);
        g_taskStats.c["conc.switches"] += conc.switches;
        g_taskStats.c["fault.preemptions_fired"] += conc.preemptionsFired;
        {
          // an interleaving = the plan's tasks + where the baton actually moved
          uint64_t ih = hashStr(plan.text());
          for (auto& p : schedule)
            ih = mix64(ih ^ (uint64_t(p.task) << 56) ^ (p.at << 16) ^ uint64_t(p.to + 1) ^ (p.quantum << 40));
          g_taskSketches.m["interleavings"].add(ih);
        }
        t.u(conc.switches);
      } catch (Violation& v) {
        v.msg += "\n#DERIVED-PLAN\n" + derived.text();
        throw;
      }
      {
        std::lock_guard<std::mutex> lk(g_merge);
        g_taskStats.c["conc.library_block_events"] += totalEvents;
        g_taskStats.c["conc.schedules"] += 1;
        g_taskStats.c["conc.tasks"] += n;
      }
      out.steps = totalEvents;
    }
    // the shared document is untouched
    std::string sharedAfter;
    serializeMsgPack(sharedDoc, sharedAfter);
    if (sharedAfter != sharedBefore ||
        verif::Inspector::checkShape(sharedDoc, "C20:shared-document", false).stateHash != shapeBefore)
      violate("C20:shared-document", "the document that all tasks only read has changed");
    for (size_t i = 0; i < n; i++)
      t.u(obsConc[i]);
  } catch (const Violation& v) {
    out.ok = false;
    out.cls = v.cls;
    out.msg = v.msg;
  }
  {
    std::lock_guard<std::mutex> lk(g_merge);
    for (auto& e : g_taskStats.c)
      g_stats.c[e.first] += e.second;
    g_taskStats.c.clear();
    for (auto& e : g_taskSketches.m)
      g_sketches.m[e.first].merge(e.second);
    g_taskSketches.m.clear();
  }
  out.hash = out.obs = t.h;
  return out;
}

Outcome execute(const Plan& plan) {
  if (plan.head.str("mode", "parked") != "cold")
    return executeInProcess(plan);
  // a child of its own: whatever the library creates on first use has not been created there yet
  fflush(stdout);
  fflush(stderr);
  int fds[2];
  if (pipe(fds) != 0)
    throw HarnessError("cold: pipe failed");
  pid_t pid = fork();
  if (pid < 0)
    throw HarnessError("cold: fork failed");
  if (pid == 0) {
    close(fds[0]);
    g_stats.c.clear();  // the child reports what it counted itself
    g_sketches.m.clear();
    Outcome o;
    try {
      o = executeInProcess(plan);
    } catch (const HarnessError& e) {
      o.ok = false;
      o.cls = "harness";
      o.msg = e.what();
    }
    std::string counters;  // what the child counted travels back with the result
    for (auto& e : g_stats.c)
      counters += e.first + "=" + std::to_string(e.second) + ";";
    std::string text = std::string(o.ok ? "1" : "0") + "\n" + o.cls + "\n" + std::to_string(o.hash) + "\n" + std::to_string(o.obs) + "\n" +
                       std::to_string(o.steps) + "\n" + (o.nontrivial ? "1" : "0") + "\n" + counters + "\n" + o.msg;
    size_t off = 0;
    while (off < text.size()) {
      ssize_t w = write(fds[1], text.data() + off, text.size() - off);
      if (w <= 0)
        break;
      off += size_t(w);
    }
    close(fds[1]);
    _exit(0);
  }
  close(fds[1]);
  std::string text;
  char buf[4096];
  for (;;) {
    ssize_t g = read(fds[0], buf, sizeof buf);
    if (g <= 0)
      break;
    text.append(buf, size_t(g));
  }
  close(fds[0]);
  int status = 0;
  waitpid(pid, &status, 0);
  if (!(WIFEXITED(status) && WEXITSTATUS(status) == 0)) {
    // the child died (sanitizer report, assertion, signal): die the same way, the driver classifies it from stderr
    fflush(stdout);
    if (WIFSIGNALED(status)) {
      printf("\nCRASH signal %02d (child of a cold plan)\n", WTERMSIG(status));
      fflush(stdout);
      _exit(128 + WTERMSIG(status));
    }
    _exit(WEXITSTATUS(status));
  }
  Outcome o;
  std::vector<std::string> f;
  size_t pos = 0;
  for (int k = 0; k < 7; k++) {
    size_t e = text.find('\n', pos);
    if (e == std::string::npos)
      throw HarnessError("cold: malformed result from the child");
    f.push_back(text.substr(pos, e - pos));
    pos = e + 1;
  }
  o.ok = f[0] == "1";
  o.cls = f[1];
  o.hash = strtoull(f[2].c_str(), nullptr, 10);
  o.obs = strtoull(f[3].c_str(), nullptr, 10);
  o.steps = strtoull(f[4].c_str(), nullptr, 10);
  o.nontrivial = f[5] == "1";
  o.msg = text.substr(pos);
  for (size_t a = 0; a < f[6].size();) {
    size_t e = f[6].find(';', a), q = f[6].find('=', a);
    if (e == std::string::npos || q == std::string::npos || q > e)
      break;
    std::string name = f[6].substr(a, q - a);
    uint64_t v = strtoull(f[6].substr(q + 1, e - q - 1).c_str(), nullptr, 10);
    if (name.size() > 4 && name.compare(name.size() - 4, 4, "_xor") == 0)
      g_stats.c[name] ^= v;
    else
      g_stats.c[name] += v;
    a = e + 1;
  }
  if (!o.ok && o.cls == "harness")
    throw HarnessError(o.msg);
  count("conc.cold_plans");
  return o;
}

Plan generate(const std::string& mode, uint64_t seed, uint64_t run) {
  Rng r(seed);
  Plan p;
  p.head.set("family", "conc").set("mode", mode).setu("seed", seed).setu("run", run);
  if (mode == "cold") {
    size_t nt = 2 + size_t(r.below(2));
    p.head.setu("pseed", r.next() & 0xFFFFFFFF);
    p.head.setu("np", 1 + r.below(6));
    p.head.set("dense", r.chance(2, 3) ? 1 : 0);
    for (size_t i = 0; i < nt; i++) {
      Op task = mkop("task");
      task.set("id", int64_t(i)).set("family", "compat").set("n", int64_t(1 + r.below(5))).setu("vseed", r.next() & 0xFFFF);
      p.ops.push_back(task);
    }
    return p;
  }
  size_t ntasks = 2 + size_t(r.below(3));
  p.head.set("defalloc", r.chance(1, 2) ? 1 : 0);
  if (r.chance(2, 3)) {
    GenOpts g;
    g.maxDepth = 3;
    g.maxWidth = 4;
    g.allowRaw = false;
    g.allowNonFinite = false;
    Val shared = genValue(r, g);
    if (shared.k != K::Obj) {
      Val o = Val::obj();
      o.o.emplace_back("a", shared);
      o.o.emplace_back("b", Val::boolean(true));
      o.o.emplace_back("*", Val::arr());
      shared = o;
    }
    p.head.set("shared", toText(shared));
  }
  p.head.setu("pseed", r.next() & 0xFFFFFFFF);
  p.head.setu("np", r.chance(1, 4) ? 1 + r.below(4) : 4 + r.below(60));
  p.head.set("dense", r.chance(1, 2) ? 1 : 0);
  for (size_t i = 0; i < ntasks; i++) {
    unsigned sel = unsigned(r.below(100));
    Op task = mkop("task");
    task.set("id", int64_t(i));
    Plan sub;
    if (sel < 60 || i == 0) {
      sub = hist::generate("conc", r.next(), run);
      for (auto& kv : sub.head.kv)
        if (kv.first == "docs" || kv.first == "share" || kv.first == "move" || kv.first == "srcseed")
          task.set(kv.first, kv.second);
    } else if (sel < 85) {
      // bytes travelling in through every reader kind (streams included)
      static const char* modes[] = {"valid", "valid", "any", "stream", "filter", "mpprefix"};
      std::string m = modes[r.below(6)];
      sub = xfer::generate(m, r.next(), run);
      task.set("family", "xfer").set("mode", m);
    } else {
      std::string m = r.chance(1, 2) ? "json" : "mp";
      sub = sink::generate(m, r.next(), run);
      task.set("family", "sink").set("mode", m);
    }
    p.ops.push_back(task);
    for (auto& op : sub.ops)
      p.ops.push_back(op);
  }
  return p;
}

}  // namespace conc
}  // namespace sim
