// `hist` scenario family: seeded histories of public API calls on 1..3 documents,
// executed against the real library and against the ordered-tree reference model,
// compared after every step. Fault-free, fault-injecting, twin-replica and limit modes.
#pragma once
#include <deque>

#include "aj.hpp"
#include "filtermodel.hpp"
#include "inspect.hpp"
#include "refjson.hpp"
#include "refmsgpack.hpp"
#include "simalloc.hpp"
#include "strsrc.hpp"
#include "walk.hpp"

namespace sim {
namespace hist {

using namespace ArduinoJson;

struct Sel {
  bool isKey = false;
  std::string key;
  size_t idx = 0;
  static Sel k(const std::string& s) {
    Sel x;
    x.isKey = true;
    x.key = s;
    return x;
  }
  static Sel i(size_t n) {
    Sel x;
    x.idx = n;
    return x;
  }
  std::string text() const {
    return isKey ? "k" + quote(key) : "i" + std::to_string(idx);
  }
  static Sel parse(const std::string& t) {
    if (t.empty())
      throw HarnessError("empty selector");
    if (t[0] == 'k') {
      size_t p = 1;
      return k(unquote(t, p));
    }
    return i(size_t(strtoull(t.c_str() + 1, nullptr, 10)));
  }
};

struct Ref {
  int doc = 0;
  uint32_t node = 0;
  char view = 'v';  // v JsonVariant, a JsonArray, o JsonObject, c JsonVariantConst
  bool alive = true;
  bool root = false;
  JsonVariant v;
  JsonArray a;
  JsonObject o;
  JsonVariantConst c;
};

struct DocState {
  JsonDocument* doc = nullptr;
  Val model;
  int alloc = 0;        // index of the allocator the document currently uses; -1: default allocator
  bool ovf = false;     // model of overflowed()
  bool leaky = false;   // an allocation failed (or a limit was hit) since the last clear: slots may be leaked
};

struct Options {
  std::string mode = "free";  // free | fault | twin | limit
  int ndocs = 1;
  bool shareAlloc = false;
  bool moveRealloc = true;
  bool inspect = true;
  char replica = 0;  // 0, 'L' or 'C'
  int instBase = 0;  // allocator instance numbers start here (unique across replicas)
  uint64_t srcSeed = 0;
  unsigned bernDen = 0;     // every failable allocator call fails with probability 1/bernDen (0: off)
  uint64_t bernSeed = 0;
  bool useDefaultAlloc = false;  // documents on the library's default allocator (shared by all threads)
  const ArduinoJson::JsonDocument* shared = nullptr;  // a document every task only reads (conc)
  Val sharedModel;
  bool skipKnown = true;   // skip operations whose signature is a listed known finding
  std::set<std::string> known;
};

class HistSim {
 public:
  HistSim(const Options& o, Transcript* t, bool real);
  ~HistSim();

  // executes one operation on the model and (when real) on the library, then checks
  void step(const Op& op, size_t opIndex);
  void finish();  // clears and destroys every document, checks the ledgers

  // everything observable, as text (twin-replica comparison; excludes isLinked())
  std::string observeAll();

  // ---- model access (used by the generator)
  int ndocs() const {
    return int(docs_.size());
  }
  const Val& model(int d) const {
    return docs_[size_t(d)].model;
  }
  std::vector<const Ref*> aliveRefs() const;
  const Val* nodeOf(const Ref& r) const {
    return const_cast<HistSim*>(this)->findNode(r.doc, r.node);
  }
  bool isAncestorOrSelf(int doc, uint32_t anc, uint32_t node);
  std::vector<Sel> pathOf(int doc, uint32_t node);
  uint64_t failableInLastOp() const {
    return lastOpFailable_;
  }
  uint64_t faultsInLastOp() const {
    return lastOpFaults_;
  }
  Transcript obs;        // configuration-independent observables (C19: equal across builds)
  bool limitSeen_ = false;  // a long history really used up the slot ids of this (small) build
  bool obsInvalid = false;  // a tolerated known finding made this build's transcript incomparable (reported as obs=0)
  std::string lastSkip;  // why the last op was skipped ("" = executed)
  Options opt;

 private:
  // model helpers
  Val* findNode(int doc, uint32_t id);
  Val* findIn(Val& v, uint32_t id);
  bool pathIn(Val& v, uint32_t id, std::vector<Sel>& out);
  void freshIds(Val& v, bool keepRoot);
  uint32_t newId() {
    return nextId_++;
  }
  Val withIds(const Val& v) {
    Val c = v;
    freshIds(c, false);
    return c;
  }
  void assignContent(Val& dst, const Val& src);  // dst keeps its id, children get fresh ids
  Val* mGetOrCreate(Val& node, const Sel& s);
  Ref* resolve(const Op& op, const char* key);
  int docIndex(const Op& op, const char* key) {
    return int(op.unum(key) % docs_.size());
  }
  void dropDocRefs(int d);
  void pruneRefs();
  size_t addRef(int doc, uint32_t node, char view);
  JsonVariant realVariant(Ref& r);
  JsonVariantConst realConst(Ref& r);
  Src pickSrc(size_t opIndex, size_t arg, const std::string& bytes, bool linkedHint);

  // op handlers (return true when executed)
  void opSet(const Op& op, size_t ix);
  void opAdd(const Op& op, size_t ix);
  void opAddNew(const Op& op, size_t ix);
  void opSetSel(const Op& op, size_t ix);
  void opSet2(const Op& op, size_t ix);
  void opTo(const Op& op, size_t ix);
  void opToSel(const Op& op, size_t ix);
  void opRemove(const Op& op, size_t ix);
  void opClear(const Op& op, size_t ix);
  void opCopy(const Op& op, size_t ix);
  void opCSet(const Op& op, size_t ix);
  void opTake(const Op& op, size_t ix);
  void opDrop(const Op& op, size_t ix);
  void opDoc(const Op& op, size_t ix);
  void opDeser(const Op& op, size_t ix);
  void opSer(const Op& op, size_t ix);
  void opCmp(const Op& op, size_t ix);
  void opFill(const Op& op, size_t ix);
  void opShared(const Op& op, size_t ix);
  void opPeek(const Op& op, size_t ix);
  void opEach(const Op& op, size_t ix);
  void opLongSet(const Op& op, size_t ix);
  void opFeed(const Op& op, size_t ix);
  void opStrict(const Op& op, size_t ix);

  // real-side helpers
  bool realSetValue(JsonVariant dst, const Val& v, size_t ix, size_t arg);
  void buildTemp(JsonDocument& tmp, const Val& v, size_t ix);
  void buildInto(JsonVariant dst, const Val& v, size_t ix, size_t& arg);

  // judging
  struct Judge {
    int doc = -1;               // document whose region may legitimately differ after a failure
    std::vector<Sel> region;    // path of the region root
    bool predicted = true;      // predicted "success" return
    bool actual = true;         // actual "success" return
    bool voidConverter = false; // success is reported as !overflowed() (sticky)
    bool hasReturn = true;
    Val pre;                    // model of `doc` before the operation
    bool floatsFromText = false;
  };
  void beginOp(Judge& j, int doc, const std::vector<Sel>& region);
  void endOp(Judge& j, const Op& op, size_t ix);
  void checkAll(const Op& op, size_t ix, bool relaxedDoc, int relaxedIdx);
  void checkDoc(int d, const char* when);
  void checkRefs();
  void collectLinkedBuffers();
  void startFaults(const Op& op);
  void stopFaults();
  bool eqExcept(const Val& pre, const Val& post, const std::vector<Sel>& path, size_t depth);
  void adoptFloats(Val& model, const Val& real);

  std::vector<DocState> docs_;
  std::vector<std::unique_ptr<SimAllocator>> allocs_;
  SimAllocator tmpAlloc_;
  std::deque<Ref> refs_;  // stable addresses: handlers keep Ref* across addRef()
  Arena arena_;
  Transcript* t_;
  bool real_;
  uint32_t nextId_ = 1;
  uint64_t lastOpFailable_ = 0, lastOpFaults_ = 0;
  bool faultsActive_ = false;
  std::vector<size_t> poolsBefore_;  // pools per document after the previous op (SIZE_MAX: unknown)
};

Plan generate(const std::string& mode, uint64_t seed, uint64_t run);
// (conc) options of a plan, and one execution of it on the calling thread: returns the hash of its observables
Options optionsOf(const Op& head);
uint64_t runForObs(const Plan& plan, const Options& o);
Outcome execute(const Plan& plan);

}  // namespace hist
}  // namespace sim
