// String sources: the same bytes offered to the library through every kind of string
// argument the API accepts. Copied kinds live in a scratch heap block that is scribbled
// over and freed the moment the API call returns; linked kinds live in an arena that
// outlives every document of the run.
#pragma once
#include "aj.hpp"

#include <memory>
#include <set>
#include <string>
#include <string_view>

#include "kernel.hpp"

namespace sim {

enum class Src : uint8_t {
  Lit,     // const char*            linked, zero-terminated
  JsL,     // JsonString(p)          linked, zero-terminated
  CPtr,    // char*                  copied, zero-terminated
  UCPtr,   // unsigned char*         copied, zero-terminated
  CArr,    // char[64]               copied, zero-terminated, len < 64
  Std,     // std::string            copied, sized
  Sv,      // std::string_view       copied, sized
  JsC,     // JsonString(p,n,Copied) copied, sized
  AStr,    // Arduino String         copied, zero-terminated
  Flash,   // const __FlashStringHelper*  copied, zero-terminated
  COUNT
};

inline const char* srcName(Src s) {
  static const char* n[] = {"lit", "jsl", "cptr", "ucptr", "carr", "std", "sv", "jsc", "astr", "flash"};
  return n[int(s)];
}
inline Src srcFromName(const std::string& s) {
  for (int i = 0; i < int(Src::COUNT); i++)
    if (s == srcName(Src(i)))
      return Src(i);
  throw HarnessError("unknown string source kind " + s);
}
inline bool srcLinked(Src s) {
  return s == Src::Lit || s == Src::JsL;
}
inline bool srcSized(Src s) {
  return s == Src::Std || s == Src::Sv || s == Src::JsC;
}

// picks a kind that can carry `bytes`; `want` is honoured when possible
inline Src srcFit(Src want, const std::string& bytes) {
  bool hasNul = bytes.find('\0') != std::string::npos;
  if (hasNul && !srcSized(want))
    return Src::JsC;
  if (want == Src::CArr && bytes.size() >= 64)
    return Src::CPtr;
  return want;
}

class Arena {
 public:
  ~Arena() {
    clear();
  }
  const char* intern(const std::string& s) {
    // equal strings get distinct addresses on purpose (two literals need not be merged)
    Entry e;
    e.content = s;
    e.buf = static_cast<char*>(malloc(s.size() + 1));
    memcpy(e.buf, s.data(), s.size());
    e.buf[s.size()] = 0;
    entries_.push_back(e);
    return e.buf;
  }
  // The caller of the library may release the buffer of a linked string once no value refers to it
  // any more: every buffer whose content is not in `live` is scribbled over and freed.
  size_t collect(const std::set<std::string>& live) {
    size_t n = 0;
    for (auto& e : entries_) {
      if (e.buf && !live.count(e.content)) {
        memset(e.buf, 0xEE, e.content.size() + 1);
        free(e.buf);
        e.buf = nullptr;
        n++;
      }
    }
    return n;
  }
  void clear() {
    for (auto& e : entries_)
      if (e.buf)
        free(e.buf);
    entries_.clear();
  }

 private:
  struct Entry {
    std::string content;
    char* buf;
  };
  std::vector<Entry> entries_;
};

// Calls f(source) with the bytes presented as kind `k`; returns f's result.
template <typename F>
auto withStr(Src k, const std::string& bytes, Arena& arena, F&& f) -> decltype(f((const char*)nullptr)) {
  using R = decltype(f((const char*)nullptr));
  k = srcFit(k, bytes);
  size_t n = bytes.size();
  switch (k) {
    case Src::Lit: {
      const char* p = arena.intern(bytes);
      return f(p);
    }
    case Src::JsL: {
      const char* p = arena.intern(bytes);
      return f(ArduinoJson::JsonString(p));
    }
    default:
      break;
  }
  // copied kinds: exactly-sized scratch block, destroyed right after the call
  char* scratch = static_cast<char*>(malloc(n + 1));
  memcpy(scratch, bytes.data(), n);
  scratch[n] = 0;
  struct Scribble {
    char* p;
    size_t n;
    ~Scribble() {
      memset(p, 0xEE, n + 1);
      free(p);
      count("fault.string_source_scribbled");
    }
  } guard{scratch, n};
  switch (k) {
    case Src::CPtr:
      return f(scratch);
    case Src::UCPtr:
      // the other character types, const and not (all copied; which one is a function of the bytes)
      switch ((hashStr(bytes) >> 7) & 3) {
        case 0:
          return f(reinterpret_cast<unsigned char*>(scratch));
        case 1:
          return f(reinterpret_cast<const unsigned char*>(scratch));
        case 2:
          return f(reinterpret_cast<signed char*>(scratch));
        default:
          return f(reinterpret_cast<const signed char*>(scratch));
      }
    case Src::CArr: {
      char arr[64];
      memcpy(arr, scratch, n + 1);
      struct ArrScribble {
        char* a;
        ~ArrScribble() {
          memset(a, 0xEE, 64);
        }
      } g2{arr};
      return f(arr);
    }
    case Src::Std: {
      std::string* s = new std::string(bytes);
      struct StrScribble {
        std::string* s;
        ~StrScribble() {
          for (auto& c : *s)
            c = char(0xEE);
          delete s;
        }
      } g3{s};
      return f(static_cast<const std::string&>(*s));
    }
    case Src::Sv:
      return f(std::string_view(scratch, n));
    case Src::JsC: {
      if (((hashStr(bytes) >> 11) & 3) == 0) {
        // a JsonString that says "linked" but does not end at a NUL (a window on a longer buffer): its size can only
        // be honoured by copying, and the buffer goes away like every other scratch block
        char* wide = static_cast<char*>(malloc(n + 5));
        memcpy(wide, bytes.data(), n);
        memcpy(wide + n, "~#!?", 5);
        struct WideScribble {
          char* p;
          size_t n;
          ~WideScribble() {
            memset(p, 0xEE, n + 5);
            free(p);
          }
        } g5{wide, n};
        return f(ArduinoJson::JsonString(wide, n, ArduinoJson::JsonString::Linked));
      }
      return f(ArduinoJson::JsonString(scratch, n, ArduinoJson::JsonString::Copied));
    }
    case Src::AStr: {
      ::String* s = new ::String(scratch);
      struct AScribble {
        ::String* s;
        ~AScribble() {
          *s = "\xEE\xEE\xEE";
          delete s;
        }
      } g4{s};
      return f(static_cast<const ::String&>(*s));
    }
    case Src::Flash: {
      auto fp = reinterpret_cast<const __FlashStringHelper*>(convertPtrToFlash(scratch));
      return f(fp);
    }
    default:
      break;
  }
  throw HarnessError("withStr: bad kind");
  return R();
}

}  // namespace sim
