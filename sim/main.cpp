// Simulator entry point: generate / execute / batch, for every scenario family
// compiled into this binary.
#include <signal.h>
#include <unistd.h>

#include <chrono>
#include <exception>

#include "kernel.hpp"
#include "refjson.hpp"
#include "simalloc.hpp"

namespace sim {
thread_local Stats g_stats;
thread_local Sketches g_sketches;
thread_local Ledger g_ledger;

namespace hist {
Plan generate(const std::string& mode, uint64_t seed, uint64_t run);
Outcome execute(const Plan& plan);
}  // namespace hist
#ifdef SIM_WITH_XFER
namespace xfer {
Plan generate(const std::string& mode, uint64_t seed, uint64_t run);
Outcome execute(const Plan& plan);
}  // namespace xfer
namespace sink {
Plan generate(const std::string& mode, uint64_t seed, uint64_t run);
Outcome execute(const Plan& plan);
}  // namespace sink
#endif
#ifdef SIM_WITH_CONC
namespace conc {
Plan generate(const std::string& mode, uint64_t seed, uint64_t run);
Outcome execute(const Plan& plan);
}  // namespace conc
#endif
}  // namespace sim

using namespace sim;

// Sanitizer reports end the process with a recognisable exit code; leak checking is off
// because the allocator ledger does that job (and documents of a failed run are abandoned).
extern "C" __attribute__((used)) const char* __asan_default_options() {
  return "exitcode=77:detect_leaks=0:abort_on_error=0:allocator_may_return_null=1:detect_stack_use_after_return=0:"
         "max_malloc_fill_size=0:malloc_context_size=8";
}
extern "C" __attribute__((used)) const char* __ubsan_default_options() {
  return "halt_on_error=1:exitcode=77:print_stacktrace=1";
}

static const Family* findFamily(const std::string& name) {
  static const Family fams[] = {
    {"hist", hist::generate, hist::execute},
#ifdef SIM_WITH_XFER
    {"xfer", xfer::generate, xfer::execute},
    {"sink", sink::generate, sink::execute},
#endif
#ifdef SIM_WITH_CONC
    {"conc", conc::generate, conc::execute},
#endif
  };
  for (auto& f : fams)
    if (name == f.name)
      return &f;
  fprintf(stderr, "unknown family %s\n", name.c_str());
  exit(3);
}

static char g_beacon[256];
static void onFatal(int sig) {
  // async-signal-safe: one write of the pre-formatted beacon
  const char* m = "\nCRASH signal ";
  (void)!write(1, m, strlen(m));
  char d[4] = {char('0' + (sig / 10) % 10), char('0' + sig % 10), ' ', 0};
  (void)!write(1, d, 3);
  (void)!write(1, g_beacon, strlen(g_beacon));
  (void)!write(1, "\n", 1);
  _exit(78);
}

static void setBeacon(const std::string& family, const std::string& mode, uint64_t seed, uint64_t run) {
  snprintf(g_beacon, sizeof g_beacon, "BEACON family=%s mode=%s seed=%llu run=%llu", family.c_str(), mode.c_str(),
           (unsigned long long)seed, (unsigned long long)run);
  // also on stdout before the run starts, so that a sanitizer abort (which bypasses the
  // signal handler) still identifies the plan it died on
  printf("%s\n", g_beacon);
  fflush(stdout);
}

static std::string jsonEscape(const std::string& s) {
  std::string o;
  for (unsigned char c : s) {
    if (c == '"' || c == '\\') {
      o += '\\';
      o += char(c);
    } else if (c < 0x20 || c >= 0x7f) {
      char b[8];
      snprintf(b, sizeof b, "\\u%04x", c);
      o += b;
    } else {
      o += char(c);
    }
  }
  return o;
}

static void printSketches() {
  for (auto& e : g_sketches.m) {
    printf("HLL %s ", e.first.c_str());
    for (int i = 0; i < (1 << Hll::P); i++)
      putchar('A' + (e.second.reg[i] > 57 ? 57 : e.second.reg[i]));
    printf("\n");
  }
}

static void printStats() {
  printSketches();
  printf("STATS {");
  bool first = true;
  for (auto& e : g_stats.c) {
    printf("%s\"%s\":%llu", first ? "" : ",", jsonEscape(e.first).c_str(), (unsigned long long)e.second);
    first = false;
  }
  printf("}\n");
}

static std::string oneLine(std::string s) {
  size_t cut = s.find("\n#DERIVED-PLAN\n");
  if (cut != std::string::npos)
    s = s.substr(0, cut);
  for (auto& c : s)
    if (c == '\n' || c == '\r')
      c = ' ';
  return s;
}

int main(int argc, char** argv) {
  signal(SIGABRT, onFatal);  // library assertions (ARDUINOJSON_DEBUG=1)
#if !defined(__has_feature)
#  define __has_feature(x) 0
#endif
#if !__has_feature(address_sanitizer) && !__has_feature(thread_sanitizer)
  // sanitizer builds report these themselves (with a stack trace, exit code 77)
  {
    static char altstack[1 << 16];
    stack_t ss;
    ss.ss_sp = altstack;
    ss.ss_size = sizeof altstack;
    ss.ss_flags = 0;
    sigaltstack(&ss, nullptr);
    struct sigaction sa;
    memset(&sa, 0, sizeof sa);
    sa.sa_handler = onFatal;
    sa.sa_flags = SA_ONSTACK;
    sigaction(SIGSEGV, &sa, nullptr);
    sigaction(SIGBUS, &sa, nullptr);
    sigaction(SIGFPE, &sa, nullptr);
    sigaction(SIGILL, &sa, nullptr);
  }
#endif
  std::set_terminate([] {
    printf("\nCRASH terminate %s\n", g_beacon);
    fflush(stdout);
    _exit(78);
  });
  setvbuf(stdout, nullptr, _IOLBF, 0);
  if (!ARDUINOJSON_USE_DOUBLE)
    sim::looseTolerance() = 1e-5;
  if (argc < 2) {
    fprintf(stderr,
            "usage: sim gen <family> <mode> <rootseed> <run>\n"
            "       sim exec <planfile> [--obs]\n"
            "       sim batch <family> <mode> <rootseed> <from> <to> <outdir> [budget_ms] [maxfail]\n"
            "       sim info\n");
    return 3;
  }
  std::string cmd = argv[1];
  try {
    if (cmd == "info") {
      printf("slot_id_size=%d pool_capacity=%d initial_pool_count=%d string_length_size=%d use_double=%d "
             "auto_shrink=%d comments=%d nan=%d infinity=%d decode_unicode=%d debug=%d\n",
             ARDUINOJSON_SLOT_ID_SIZE, ARDUINOJSON_POOL_CAPACITY, ARDUINOJSON_INITIAL_POOL_COUNT,
             ARDUINOJSON_STRING_LENGTH_SIZE, ARDUINOJSON_USE_DOUBLE, ARDUINOJSON_AUTO_SHRINK, ARDUINOJSON_ENABLE_COMMENTS,
             ARDUINOJSON_ENABLE_NAN, ARDUINOJSON_ENABLE_INFINITY, ARDUINOJSON_DECODE_UNICODE, ARDUINOJSON_DEBUG);
      return 0;
    }
    if (cmd == "gen" && argc >= 6) {
      const Family* f = findFamily(argv[2]);
      std::string mode = argv[3];
      uint64_t root = strtoull(argv[4], nullptr, 10), run = strtoull(argv[5], nullptr, 10);
      Plan p = f->generate(mode, deriveSeed(root, f->name, mode, run), run);
      fputs(p.text().c_str(), stdout);
      return 0;
    }
    if (cmd == "exec" && argc >= 3) {
      Plan p = Plan::parse(readFile(argv[2]));
      const Family* f = findFamily(p.head.str("family"));
      setBeacon(f->name, p.head.str("mode"), p.head.unum("seed"), p.head.unum("run"));
      Outcome o = f->execute(p);
      if (o.ok) {
        printf("RESULT ok hash=%016llx obs=%016llx steps=%llu\n", (unsigned long long)o.hash, (unsigned long long)o.obs,
               (unsigned long long)o.steps);
        printStats();
        return 0;
      }
      size_t cut = o.msg.find("\n#DERIVED-PLAN\n");
      if (cut != std::string::npos && argc >= 4 && std::string(argv[3]) == "--derived") {
        // write the derived (concrete) plan next to the original
        writeFile(std::string(argv[2]) + ".derived", o.msg.substr(cut + 15));
      }
      printf("RESULT fail class=%s msg=%s\n", o.cls.c_str(), oneLine(o.msg).c_str());
      return 1;
    }
    if (cmd == "batch" && argc >= 8) {
      const Family* f = findFamily(argv[2]);
      std::string mode = argv[3];
      uint64_t root = strtoull(argv[4], nullptr, 10);
      uint64_t from = strtoull(argv[5], nullptr, 10), to = strtoull(argv[6], nullptr, 10);
      std::string outdir = argv[7];
      long budgetMs = argc >= 9 ? atol(argv[8]) : 0;
      int maxFail = argc >= 10 ? atoi(argv[9]) : 3;
      // classes the calling check owns (prefixes, comma separated): only those count towards maxFail; a violation
      // of another property's class is reported (the first few) and the batch goes on looking for its own
      std::vector<std::string> own;
      if (argc >= 11) {
        std::string all = argv[10];
        size_t a = 0;
        while (a <= all.size()) {
          size_t e = all.find(',', a);
          if (e == std::string::npos)
            e = all.size();
          if (e > a)
            own.push_back(all.substr(a, e - a));
          a = e + 1;
        }
      }
      int foreign = 0;
      auto t0 = std::chrono::steady_clock::now();
      uint64_t done = 0, steps = 0;
      int fails = 0;
      uint64_t hashAcc = 0;
      std::set<uint64_t> distinct;  // plan hashes of non-trivial runs
      for (uint64_t run = from; run < to; run++) {
        // the wall clock only decides how many runs are performed, never what a run does
        if (budgetMs > 0 && (run & 7) == 0) {
          auto el = std::chrono::duration_cast<std::chrono::milliseconds>(std::chrono::steady_clock::now() - t0).count();
          if (el > budgetMs)
            break;
        }
        uint64_t seed = deriveSeed(root, f->name, mode, run);
        Plan p = f->generate(mode, seed, run);
        setBeacon(f->name, mode, root, run);
        Outcome o = f->execute(p);
        done++;
        steps += o.steps;
        hashAcc ^= mix64(o.hash + run);
        if (o.nontrivial)
          distinct.insert(hashStr(p.text()));
        if (getenv("SIM_PRINT_HASHES"))
          printf("HASH run=%llu hash=%016llx obs=%016llx\n", (unsigned long long)run, (unsigned long long)o.hash,
                 (unsigned long long)o.obs);
        if (!o.ok) {
          std::string path = outdir + "/fail-" + f->name + "-" + mode + "-" + std::to_string(root) + "-" + std::to_string(run) + ".plan";
          size_t cut = o.msg.find("\n#DERIVED-PLAN\n");
          writeFile(path, cut != std::string::npos ? o.msg.substr(cut + 15) : p.text());
          printf("FAIL run=%llu class=%s plan=%s msg=%s\n", (unsigned long long)run, o.cls.c_str(), path.c_str(),
                 oneLine(o.msg).c_str());
          bool mine = own.empty();
          for (auto& pre : own)
            if (o.cls.compare(0, pre.size(), pre) == 0)
              mine = true;
          if (!mine) {
            if (++foreign >= 40)
              break;
          } else if (++fails >= maxFail) {
            break;
          }
        } else if (done <= 3) {
          std::string t = p.text();
          if (t.size() > 1500)
            t = t.substr(0, 1500) + "…";
          for (auto& c : t)
            if (c == '\n')
              c = '|';
          printf("SAMPLE %s\n", t.c_str());
        }
      }
      printf("DONE runs=%llu last=%llu steps=%llu fails=%d hashacc=%016llx\n", (unsigned long long)done,
             (unsigned long long)(from + done), (unsigned long long)steps, fails, (unsigned long long)hashAcc);
      printf("PLANHASHES");
      for (auto h : distinct)
        printf(" %016llx", (unsigned long long)h);
      printf("\n");
      printStats();
      return fails ? 1 : 0;
    }
  } catch (const HarnessError& e) {
    printf("HARNESS-ERROR %s\n", e.what());
    return 2;
  } catch (const Violation& v) {
    printf("HARNESS-ERROR uncaught violation %s %s\n", v.cls.c_str(), v.what());
    return 2;
  }
  fprintf(stderr, "bad command line\n");
  return 3;
}
