// `xfer` scenario family: bytes travel *into* the library through every reader kind,
// with transport faults (EOF at an offset, flipped byte, chunking, short read), nesting
// limits, filters and allocator faults. Judges result codes, extracted documents, byte
// accounting at the reader seam and the allocator ledger.
#include <algorithm>
#include <sstream>

#include "aj.hpp"
#include "inspect.hpp"
#include "readers.hpp"
#include "refjson.hpp"
#include "refmsgpack.hpp"
#include "simalloc.hpp"
#include "walk.hpp"
#include "filtermodel.hpp"

namespace sim {
namespace xfer {

using namespace ArduinoJson;

namespace {

constexpr size_t kMaxStr = ArduinoJson::detail::StringNode::maxLength;

// The name of the code returned, after checking that the error object is coherent with itself: one of the
// six documented codes, and code(), c_str(), f_str(), operator bool, ==, != and << all say the same.
const char* codeName(DeserializationError e) {
  static const char* names[] = {"Ok", "EmptyInput", "IncompleteInput", "InvalidInput", "NoMemory", "TooDeep"};
  int c = int(e.code());
  if (c < 0 || c > 5)
    violate("C03:undocumented-code", "deserializer returned code " + std::to_string(c));
  const char* n = e.c_str();
  std::ostringstream os1, os2;
  os1 << e;
  os2 << e.code();
  std::string flashName;  // f_str() designates program memory: read it the way a sketch would
  for (const char* fp = reinterpret_cast<const char*>(e.f_str()); pgm_read_byte(fp) != 0 && flashName.size() < 32; fp++)
    flashName += char(pgm_read_byte(fp));
  bool coherent = std::string(n) == names[c] && flashName == names[c] &&
                  bool(e) == (c != 0) && e == e.code() && !(e != e.code()) && e.code() == e && e == DeserializationError(e.code()) &&
                  !(e != DeserializationError(e.code())) && os1.str() == names[c] && os2.str() == names[c] &&
                  (e == DeserializationError::Ok) == (c == 0);
  if (!coherent)
    violate("C03:undocumented-code", std::string("the error object is not coherent with itself: code ") + std::to_string(c) + ", c_str " + n);
  return names[c];
}

struct OneResult {
  std::string code;
  Val walk;
  ReaderStats rs;
  size_t peak = 0, liveAtReturn = 0, total = 0, maxRequest = 0;
  uint64_t failable = 0, faultsFired = 0;
  bool overflowed = false;
  size_t nesting = 0;
  size_t stackUsed = 0;
};

void buildFilterDoc(JsonDocument& fd, const Val& f);
void buildFilterInto(JsonVariant dst, const Val& f) {
  switch (f.k) {
    case K::Null:
      dst.set(nullptr);
      break;
    case K::Bool:
      dst.set(f.b);
      break;
    case K::Int:
      dst.set(f.i);
      break;
    case K::UInt:
      dst.set(f.u);
      break;
    case K::Float:
      dst.set(f.f);
      break;
    case K::Double:
      dst.set(f.d);
      break;
    case K::Str:
      dst.set(f.s);
      break;
    case K::Raw:
      dst.set(serialized(f.s));
      break;
    case K::Arr: {
      JsonArray a = dst.to<JsonArray>();
      for (auto& e : f.a)
        buildFilterInto(a.add<JsonVariant>(), e);
      break;
    }
    case K::Obj: {
      JsonObject o = dst.to<JsonObject>();
      for (auto& m : f.o)
        buildFilterInto(o[m.first].to<JsonVariant>(), m.second);
      break;
    }
  }
}
void buildFilterDoc(JsonDocument& fd, const Val& f) {
  buildFilterInto(fd.to<JsonVariant>(), f);
  if (fd.overflowed())
    throw HarnessError("filter document overflowed");
}

// ----------------------------------------------------------------- one delivery
struct Delivery {
  bool msgpack = false;
  int nl = -1;
  bool hasFilter = false;
  Val filter;
  bool filterFirst = true;
  std::vector<size_t> chunks;
  size_t shortAt = SIZE_MAX;
  uint64_t gFailAt = 0, gFailFrom = 0;
  unsigned bernDen = 0;
  uint64_t bernSeed = 0;
  bool checkReuse = true;
};

int effectiveLimit(const Delivery& d) {
  return d.nl >= 0 ? d.nl : ARDUINOJSON_DEFAULT_NESTING_LIMIT;
}

size_t g_frameMax = 0;  // stack bytes per nesting level, calibrated per build (C15)

// deferReadAfterEnd: the caller judges the returned code first (an input accepted although it ends too early is the
// more telling report) and raises the read-after-end finding itself afterwards
OneResult runOne(RK kind, const Delivery& d, const std::string& wire, Transcript* t, bool deferReadAfterEnd = false) {
  OneResult r;
  SimAllocator alloc(7, nullptr);
  SimAllocator falloc(8, nullptr);
  SimAllocator scratch(9, nullptr);
  {
    JsonDocument fdoc(&falloc);
    DeserOpts o;
    o.msgpack = d.msgpack;
    o.nestingLimit = d.nl;
    o.filterFirst = d.filterFirst;
    o.chunks = d.chunks;
    o.shortReadAt = d.shortAt;
    if (d.hasFilter) {
      buildFilterDoc(fdoc, d.filter);
      o.hasFilter = true;
      o.filter = fdoc.as<JsonVariantConst>();
      if (!d.filterFirst && (wire.size() & 1))
        o.filterDoc = &fdoc;  // the Filter(JsonDocument&) constructor, which shrinks the filter document first
    }
    JsonDocument* doc = new JsonDocument(&alloc);
    // the destination holds something beforehand: it must be entirely replaced
    (*doc)["stale"][2] = "previous content";
    alloc.resetPeak();
    uint64_t f0 = alloc.nFailable;
    if (d.gFailAt)
      alloc.faults.gFailAt.insert(f0 + d.gFailAt);
    if (d.gFailFrom)
      alloc.faults.gFailFrom = f0 + d.gFailFrom;
    if (d.bernDen) {
      alloc.faults.bernoulliNum = 1;
      alloc.faults.bernoulliDen = d.bernDen;
      alloc.faults.rng = Rng(d.bernSeed);
    }
    size_t liveBefore = alloc.liveBytes;
    (void)liveBefore;
    DeserializationError err = deserializeVia(kind, o, *doc, wire, r.rs, &scratch);
    alloc.faults.gFailAt.clear();
    alloc.faults.gFailFrom = 0;
    alloc.faults.bernoulliDen = 0;
    r.code = codeName(err);
    r.peak = alloc.peakLive;
    r.liveAtReturn = alloc.liveBytes;
    r.total = alloc.totalRequested;
    r.maxRequest = alloc.maxRequest;
    r.failable = alloc.nFailable - f0;
    r.faultsFired = alloc.nFaultsFired;
    r.overflowed = doc->overflowed();
    r.stackUsed = r.rs.minStack == UINTPTR_MAX ? 0 : size_t(r.rs.baseStack - r.rs.minStack);

    static const char* six[] = {"Ok", "EmptyInput", "IncompleteInput", "InvalidInput", "NoMemory", "TooDeep"};
    bool known = false;
    for (auto c : six)
      if (r.code == c)
        known = true;
    if (!known)
      violate("C03:unknown-code", "deserialize returned an undocumented code: " + r.code);
    if (r.rs.handedOut > r.rs.available)
      violate("C03:overread", "the reader handed out more bytes than the input holds");
    if (r.rs.callsAfterEnd && !deferReadAfterEnd)
      violate("C03:read-after-end", std::to_string(r.rs.callsAfterEnd) +
                                        " call(s) to the reader after it had reported the end of input (kind " +
                                        rkName(kind) + ")");
    bool noMem = r.code == "NoMemory";
    if (noMem && !r.overflowed && alloc.nFaultsFired)
      violate("C05:unreported-failure", "NoMemory after an allocation failure but overflowed() is false");
    if (!noMem && alloc.nFaultsFired && r.overflowed)
      count("xfer.overflowed_without_nomemory");
    // the document is a well-formed value
    WalkOpts wo;
    wo.cls = "C03:malformed-document";
    wo.lookups = wire.size() < 400;
    r.walk = extract(doc->as<JsonVariantConst>(), wo);
    r.nesting = doc->nesting();
    auto rep = verif::Inspector::checkShape(*doc, "C03:malformed-document", true);
    if (!rep.refUnderflow.empty())
      violate("C06:string-refcount", "after deserialization: " + rep.refUnderflow);
    if (!noMem && !alloc.nFaultsFired && !r.overflowed) {
      if (rep.leaked)
        violate("C06:slot-leak", "slots leaked by a deserialization in which no allocation failed");
      if (!rep.refMismatch.empty())
        violate("C06:string-refcount", "after deserialization: " + rep.refMismatch);
    }
    if (r.walk.member("stale") && !(d.hasFilter) && r.code == "Ok" && false)
      violate("C03:not-replaced", "previous content survived");
    {
      // it can be serialized; the text parses unless binary values are present
      std::string js;
      size_t n = serializeJson(*doc, js);
      if (n != js.size())
        violate("C03:malformed-document", "serializeJson count differs from the bytes produced");
      bool bin = false;
      visitc(r.walk, [&](const Val& x) {
        if (x.k == K::Raw)
          bin = true;
      });
      if (!bin) {
        RefJsonParser p(js, kUseDouble);
        p.allowNaN = kNaN;
        p.allowInf = kInf;
        auto pr = p.parseDocument();
        if (!pr.ok)
          violate("C03:malformed-document", "the extracted document serializes to text the reference parser rejects: " +
                                                pr.error + " " + hexdump(js));
      }
      std::string mp;
      serializeMsgPack(*doc, mp);
      if (measureMsgPack(*doc) != mp.size())
        violate("C03:malformed-document", "measureMsgPack differs from serializeMsgPack");
      // ... and pretty-printed, whatever its depth (a nesting limit of 255 lets 255 levels in)
      std::string pretty;
      size_t np = serializeJsonPretty(*doc, pretty);
      if (np != pretty.size() || measureJsonPretty(*doc) != np)
        violate("C03:malformed-document", "serializeJsonPretty count / measureJsonPretty differ from the bytes produced");
      std::string squeezed;
      bool inStr = false;
      for (size_t q = 0; q < pretty.size(); q++) {
        char c = pretty[q];
        if (inStr) {
          squeezed += c;
          if (c == '\\' && q + 1 < pretty.size())
            squeezed += pretty[++q];
          else if (c == '"')
            inStr = false;
        } else if (c == '"') {
          inStr = true;
          squeezed += c;
        } else if (c != ' ' && c != '\r' && c != '\n') {
          squeezed += c;
        }
      }
      if (!bin && squeezed != js)
        violate("C03:malformed-document", "the pretty text differs from the compact one in more than white space");
    }
    // memory bound (C06): one maximum-size string + linear in the bytes consumed
    {
      size_t consumed = rkStream(kind) ? r.rs.handedOut : visibleBytes(kind, wire).size();
      size_t strMax = detail::sizeofString(kMaxStr);
      size_t poolBytes = size_t(ARDUINOJSON_POOL_CAPACITY) * detail::ResourceManager::slotSize;
      size_t bound = strMax + 64 * consumed + 2 * poolBytes + 4096;
      if (r.maxRequest > strMax && r.maxRequest > poolBytes + 64 * consumed + 4096)
        violate("C06:unbounded-request", "a single request of " + std::to_string(r.maxRequest) +
                                             " bytes exceeds one maximum-size string (" + std::to_string(strMax) + ")");
      if (r.total > bound + strMax || r.peak > bound)
        violate("C06:unbounded-request", "deserializing " + std::to_string(consumed) + " bytes requested " +
                                             std::to_string(r.total) + " bytes in total (peak " + std::to_string(r.peak) +
                                             "), above the bound " + std::to_string(bound));
      g_stats.maxv("alloc.max_request.max", r.maxRequest);
    }
    // C15: nesting and stack
    if (r.code == "TooDeep")
      count("fault.nesting_limit_hit");
    if (r.code == "Ok" && r.nesting > size_t(effectiveLimit(d)))
      violate("C15:nesting-above-limit", "Ok with nesting() " + std::to_string(r.nesting) + " above the limit " +
                                             std::to_string(effectiveLimit(d)));
    if (g_frameMax && r.stackUsed) {
      size_t allowed = (size_t(effectiveLimit(d)) + 3) * g_frameMax + 4096;
      if (r.stackUsed > allowed)
        violate("C15:stack-depth", "stack used at the reader seam " + std::to_string(r.stackUsed) + " bytes > " +
                                       std::to_string(allowed) + " allowed for limit " + std::to_string(effectiveLimit(d)));
      g_stats.maxv("stack.used.max", r.stackUsed);
    }
    if (t) {
      t->s(r.code);
      t->u(valueHash(r.walk));
    }
    sketch("states", hashStr(r.code, valueHash(r.walk)));
    sketch("documents_after_call", rep.stateHash);
    if (d.checkReuse) {
      // cleared: everything returns; reusable: works normally
      doc->clear();
      alloc.expectEmpty("C06:leak-after-clear", "after clear() following deserialization");
      if (doc->overflowed())
        violate("C05:overflowed-after-clear", "overflowed() still true after clear()");
      JsonDocument& dd = *doc;
      bool ok = dd["k"].set("v");
      ok = dd["n"].add(1) && ok;
      ok = dd["n"].add(std::string("copied")) && ok;
      std::string out;
      serializeJson(dd, out);
      if (!ok || out != "{\"k\":\"v\",\"n\":[1,\"copied\"]}")
        violate("C03:not-reusable", "document does not work normally after deserialization + clear(): " + out);
    }
    delete doc;
    alloc.expectEmpty("C06:leak-at-destruction", "after destruction following deserialization");
  }
  falloc.expectEmpty("C06:leak-at-destruction", "filter document");
  scratch.expectEmpty("C06:leak-at-destruction", "holder document");
  return r;
}

std::vector<RK> kindsFor(const Op& op, bool msgpack, const std::string& wire) {
  std::vector<RK> all;
  std::string sel = op.str("kinds", "all");
  for (int i = 0; i < int(RK::COUNT); i++) {
    RK k = RK(i);
    if (msgpack && rkZeroTerminated(k))
      continue;  // MessagePack only through bounded kinds
    if (k == RK::Variant && visibleBytes(k, wire).size() > kMaxStr)
      continue;  // the holder document could not store the text
    if (sel != "all" && sel != rkName(k))
      continue;
    all.push_back(k);
  }
  if (all.empty())
    all.push_back(msgpack ? RK::CPtrN : RK::CPtrN);
  return all;
}

Delivery deliveryFrom(const Op& op) {
  Delivery d;
  d.msgpack = op.str("fmt") == "mp";
  if (op.has("nl"))
    d.nl = int(op.num("nl"));
  if (op.has("filter")) {
    d.hasFilter = true;
    d.filter = parseText(op.str("filter"));
  }
  // the two options may be given in either order; where the plan does not say, the order is a function of the bytes
  d.filterFirst = op.has("ffirst") ? op.num("ffirst", 1) != 0 : (hashStr(op.str("b")) & 1) != 0;
  if (op.has("chunks")) {
    std::stringstream ss(op.str("chunks"));
    std::string tok;
    while (std::getline(ss, tok, ','))
      d.chunks.push_back(size_t(strtoull(tok.c_str(), nullptr, 10)));
  }
  if (op.has("short"))
    d.shortAt = size_t(op.unum("short"));
  if (op.has("fa"))
    d.gFailAt = op.unum("fa");
  if (op.has("ff"))
    d.gFailFrom = op.unum("ff");
  if (op.has("bern")) {
    d.bernDen = unsigned(op.unum("bern"));
    d.bernSeed = op.unum("bseed");
  }
  return d;
}

std::string applyTransportFaults(const Op& op, std::string wire) {
  if (op.has("flip")) {
    // "k:m" pairs separated by ','
    std::stringstream ss(op.str("flip"));
    std::string tok;
    while (std::getline(ss, tok, ',')) {
      size_t c = tok.find(':');
      size_t k = size_t(strtoull(tok.c_str(), nullptr, 10));
      unsigned m = unsigned(strtoul(tok.c_str() + c + 1, nullptr, 10));
      if (!wire.empty()) {
        wire[k % wire.size()] = char(wire[k % wire.size()] ^ char(m ? m : 1));
        count("fault.byte_flipped");
      }
    }
  }
  if (op.has("eof")) {
    size_t k = size_t(op.unum("eof"));
    if (k < wire.size()) {
      wire.resize(k);
      count("fault.eof_injected");
    }
  }
  return wire;
}

bool numberish(char c) {
  return (c >= '0' && c <= '9') || c == '+' || c == '-' || c == '.' || c == 'e' || c == 'E';
}


void checkExpectation(const Op& op, const Delivery& d, const std::string& wire, const OneResult& r, RK kind) {
  std::string expect = op.str("expect", "any");
  bool skipValue = false;
  // expectations that depend on the build's dialect options
  std::string needs = op.str("needs");
  if ((needs == "comments" && !kComments) || (needs == "nan" && !kNaN) || (needs == "inf" && !kInf))
    expect = "InvalidInput";
  if (needs == "comments-else-any" && !kComments)
    expect = "any";
  if (!d.msgpack && !kDecodeUnicode && wire.find("\\u") != std::string::npos)
    skipValue = true;  // \uXXXX stays undecoded in this build: the value differs by design
  if (expect == "any")
    return;
  std::string cls = op.str("cls", d.msgpack ? "C09:classification" : "C10:classification");
  if (expect == "notok") {
    if (r.code == "Ok")
      violate(cls, std::string("input accepted although it must not be (") + op.qstr("why") + "): " + hexdump(wire));
    return;
  }
  if (expect == "Ok" && r.code == "NoMemory" && op.has("value")) {
    // legitimate when this build's limits cannot hold the value (1-byte slot ids or lengths)
    Val want = parseText(op.str("value"));
    size_t slots = 0;
    bool longStr = false;
    visitc(want, [&](const Val& x) {
      slots += x.a.size() + 2 * x.o.size();
      if ((x.k == K::Int && x.i < INT32_MIN) || (x.k == K::UInt && x.u > 0xFFFFFFFFull) || x.k == K::Double)
        slots++;
      if (x.s.size() > kMaxStr)
        longStr = true;
      for (auto& m : x.o)
        if (m.first.size() > kMaxStr)
          longStr = true;
    });
    // (without \\u decoding every escape stays six characters long: the stored string is longer than the value's)
    if (!d.msgpack && !kDecodeUnicode && wire.find("\\u") != std::string::npos && wire.size() > kMaxStr)
      longStr = true;
    if (longStr || slots + 8 > size_t(verif::Inspector::NULLSLOT)) {
      count("xfer.nomemory_by_capacity");
      return;
    }
  }
  if (expect == "TooDeep" && r.code == "NoMemory" && 4 * size_t(effectiveLimit(d)) + 8 > size_t(verif::Inspector::NULLSLOT)) {
    count("xfer.nomemory_by_capacity");
    return;  // the slot space of this build ends before the nesting limit does
  }
  if (r.code != expect)
    violate(cls, "expected " + expect + ", got " + r.code + " (" + op.qstr("why") + ", kind " + rkName(kind) +
                     ") for " + hexdump(wire));
  if (expect == "Ok" && op.has("value") && !skipValue) {
    Val want = parseText(op.str("value"));
    normalise(want, kUseDouble);
    if (d.hasFilter)
      want = project(want, d.filter);
    std::string why;
    bool ok = op.num("loose") ? looselyEqual(want, r.walk, &why) : sameValue(want, r.walk);
    if (!ok)
      violate(op.str("vcls", d.msgpack ? "C09:wrong-value" : "C10:wrong-value"),
              "document differs from the value the input denotes: " + (why.empty() ? firstDiff(want, r.walk) : why) +
                  " for " + hexdump(wire));
  }
}

// ----------------------------------------------------------------- op: deser
struct Ctx {
  Transcript* t;
  const Plan* plan;
  size_t opIndex;
};

void deliverToKinds(const Op& op, const Delivery& d, const std::string& wire, Ctx& cx) {
  auto kinds = kindsFor(op, d.msgpack, wire);
  // reference result per visible byte string: the bounded pointer+size kind
  std::map<std::string, OneResult> ref;
  for (RK k : kinds) {
    Delivery dk = d;
    if (k != RK::IStream)
      dk.chunks.clear();
    if (!(k == RK::Custom || k == RK::AStream))
      dk.shortAt = SIZE_MAX;
    OneResult r = runOne(k, dk, wire, cx.t, true);
    auto readAfterEnd = [&] {
      if (r.rs.callsAfterEnd)
        violate("C03:read-after-end", std::to_string(r.rs.callsAfterEnd) +
                                          " call(s) to the reader after it had reported the end of input (kind " + rkName(k) + ")");
    };
    count("xfer.deliveries");
    if (r.faultsFired) {
      count("fault.alloc_fired", r.faultsFired);
      count(r.code == "NoMemory" ? "c05.failed_cleanly" : "c05.absorbed_or_other");
      readAfterEnd();
      continue;  // results under random allocation failures are judged for safety only (runOne)
    }
    count((std::string("kind.") + rkName(k)).c_str());
    count((std::string("code.") + r.code).c_str());
    if (r.rs.shortReadFired) {
      count("fault.short_read_fired");
      // the peer stalled inside a block read. MessagePack: the object is incomplete. (JSON reads
      // byte-wise, a stall there is an end of input and a number may legitimately be complete.)
      if (d.msgpack && r.code == "Ok")
        violate("C03:short-read-accepted", "a short readBytes() went unnoticed");
      readAfterEnd();
      continue;
    }
    checkExpectation(op, dk, visibleBytes(k, wire), r, k);
    readAfterEnd();
    std::string vis = visibleBytes(k, wire);
    auto it = ref.find(vis);
    if (it == ref.end()) {
      if (k == RK::CPtrN) {
        ref[vis] = r;
      } else {
        Delivery dr = dk;
        dr.chunks.clear();
        dr.shortAt = SIZE_MAX;
        dr.checkReuse = false;
        ref[vis] = runOne(RK::CPtrN, dr, vis, nullptr);
      }
      it = ref.find(vis);
    }
    const OneResult& base = it->second;
    if (r.code != base.code || !sameValue(r.walk, base.walk))
      violate("C03:kinds-disagree", std::string("input kind ") + rkName(k) + " gives " + r.code + " / " +
                                        toText(r.walk).substr(0, 80) + " but pointer+size gives " + base.code + " / " +
                                        toText(base.walk).substr(0, 80) + " for " + hexdump(vis));
  }
}

// MessagePack without filter: when the independent decoder accepts the (possibly corrupted) bytes
// as one object, the library must agree; when it finds them truncated, the library must not accept
void refCheck(const Op& op, const Delivery& d, const std::string& wire) {
  (void)op;
  if (!d.msgpack || d.hasFilter)
    return;
  RefMsgPackDecoder dec(wire, kUseDouble);
  auto rr = dec.decode();
  Delivery dd = d;
  dd.checkReuse = false;
  dd.chunks.clear();
  dd.shortAt = SIZE_MAX;
  OneResult got = runOne(RK::CPtrN, dd, wire, nullptr);
  if (rr.status == MpDecodeResult::Ok && rr.maxDepth <= size_t(effectiveLimit(d)) && got.code == "Ok") {
    std::string why;
    if (!looselyEqual(rr.value, got.walk, &why))
      violate("C09:wrong-value", "corrupted but well-formed object decodes differently: " + why + " for " + hexdump(wire));
    count("probe.corrupt_still_wellformed");
  }
  if (rr.status == MpDecodeResult::Ok && rr.maxDepth <= size_t(effectiveLimit(d)) && got.code != "Ok" && got.code != "NoMemory")
    violate("C09:classification", "well-formed object (after corruption) rejected with " + got.code + ": " + hexdump(wire));
  if (rr.status == MpDecodeResult::Incomplete && got.code == "Ok")
    violate("C09:prefix", "truncated object (after corruption) accepted: " + hexdump(wire));
  if (rr.status == MpDecodeResult::Invalid && got.code == "Ok")
    violate("C09:classification", "object with the reserved code 0xC1 or a non-string map key accepted: " + hexdump(wire));
}

void opDeser(const Op& op, Ctx& cx) {
  Delivery d = deliveryFrom(op);
  std::string base = op.qstr("b");
  if (op.has("prefixes")) {
    // the peer dies at every possible instant: every proper prefix (and the full input)
    size_t n = base.size();
    size_t step = n > 4000 ? n / 2000 : 1;
    for (size_t k = 0; k < n; k += (k < 64 || k + 64 >= n) ? 1 : step) {
      Op q = op;
      q.kv.erase(std::remove_if(q.kv.begin(), q.kv.end(), [](const std::pair<std::string, std::string>& p) { return p.first == "prefixes"; }),
                 q.kv.end());
      q.setu("eof", k);
      count("fault.prefix_positions");
      try {
        std::string wire = base.substr(0, k);
        // expected class of a proper prefix
        if (d.msgpack) {
          q.set("expect", k == 0 ? "EmptyInput" : "IncompleteInput");
          q.setq("why", "proper prefix of a well-formed object");
          q.set("cls", "C09:prefix");
        } else {
          bool onlyWs = wire.find_first_not_of(" \t\r\n") == std::string::npos;
          char last = onlyWs ? ' ' : wire[wire.find_last_not_of(" \t\r\n")];
          std::string top = op.str("top", "container");
          q.set("cls", "C10:prefix");
          if (onlyWs) {
            q.set("expect", "EmptyInput");
            q.setq("why", "only whitespace");
          } else if (top == "container" && !numberish(last) && wire.back() != '\\') {
            q.set("expect", "IncompleteInput");
            q.setq("why", "input ends inside a value");
          } else if (top == "container") {
            q.set("expect", "notok");
            q.setq("why", "input ends before its top-level value is closed");
          } else {
            q.set("expect", "any");
          }
        }
        deliverToKinds(q, d, wire, cx);
      } catch (Violation& v) {
        Plan derived = *cx.plan;
        derived.ops[cx.opIndex] = q;
        v.msg += "\n#DERIVED-PLAN\n" + derived.text();
        throw;
      }
    }
    return;
  }
  if (op.has("badkeys")) {
    // `base` ends where a map key is due: every possible header byte in turn. Only string headers
    // may be accepted; everything else (0xC1 and fixext 16 included) is InvalidInput.
    for (unsigned hb = 0; hb < 256; hb++) {
      bool isStr = (hb & 0xE0) == 0xA0 || hb == 0xD9 || hb == 0xDA || hb == 0xDB;
      std::string wire = base;
      wire += char(hb);
      wire += std::string("\x01\x01\x01\x01\x01", 5);
      Op q = op;
      q.kv.erase(std::remove_if(q.kv.begin(), q.kv.end(), [](const std::pair<std::string, std::string>& p) { return p.first == "badkeys" || p.first == "b"; }),
                 q.kv.end());
      q.setq("b", wire);
      q.set("expect", isStr ? "any" : "InvalidInput").setq("why", "non-string map key").set("cls", "C09:classification");
      count("fault.key_header_bytes");
      try {
        deliverToKinds(q, d, wire, cx);
      } catch (Violation& v) {
        Plan derived = *cx.plan;
        derived.ops[cx.opIndex] = q;
        v.msg += "\n#DERIVED-PLAN\n" + derived.text();
        throw;
      }
    }
    return;
  }
  if (op.has("corrupt")) {
    // single-byte corruptions at seeded offsets, every XOR mask in turn for a few of them
    Rng r(op.unum("corrupt"));
    size_t n = base.size();
    size_t offsets = std::min<size_t>(n, size_t(op.num("noff", 6)));
    for (size_t j = 0; j < offsets && n; j++) {
      size_t off = size_t(r.below(n));
      unsigned nmasks = j == 0 ? 255 : 12;
      for (unsigned mi = 0; mi < nmasks; mi++) {
        unsigned mask = j == 0 ? mi + 1 : unsigned(1 + r.below(255));
        Op q = op;
        q.kv.erase(std::remove_if(q.kv.begin(), q.kv.end(), [](const std::pair<std::string, std::string>& p) { return p.first == "corrupt" || p.first == "noff"; }),
                   q.kv.end());
        q.set("flip", std::to_string(off) + ":" + std::to_string(mask));
        q.set("expect", "any").set("refcheck", 1);
        try {
          std::string wire = applyTransportFaults(q, base);
          deliverToKinds(q, d, wire, cx);
          refCheck(q, d, wire);
        } catch (Violation& v) {
          Plan derived = *cx.plan;
          derived.ops[cx.opIndex] = q;
          v.msg += "\n#DERIVED-PLAN\n" + derived.text();
          throw;
        }
      }
    }
    return;
  }
  std::string wire = applyTransportFaults(op, base);
  if (op.has("pair")) {
    // C11: the same input with and without the filter, on the same kind
    RK k = op.has("kinds") && op.str("kinds") != "all" ? rkFromName(op.str("kinds")) : RK::CPtrN;
    if (d.msgpack && rkZeroTerminated(k))
      k = RK::CPtrN;
    Delivery du = d;
    du.hasFilter = false;
    OneResult u = runOne(k, du, wire, cx.t);
    OneResult f = runOne(k, d, wire, cx.t);
    count("xfer.pairs");
    if (isTrue(d.filter)) {
      if (u.code != f.code || !sameValue(u.walk, f.walk))
        violate("C11:true-not-identity", "the filter `true` changed the result: " + u.code + " vs " + f.code + " for " + hexdump(wire));
      count("probe.filter_true_identity");
    }
    if (u.code == "Ok") {
      if (f.code != "Ok")
        violate("C11:filtered-fails", "input accepted without filter but " + f.code + " with filter " + toText(d.filter) +
                                          " for " + hexdump(wire));
      Val want = project(u.walk, d.filter);
      if (!sameValue(want, f.walk))
        violate("C11:not-projection", "filtered result differs from the projection of the unfiltered result at " +
                                          firstDiff(want, f.walk) + " [projection | filtered], filter " + toText(d.filter) +
                                          " input " + hexdump(wire));
      count("probe.projection_checked");
      if (!sameValue(want, u.walk))
        count("probe.filter_dropped_something");
    }
    if (u.code == "Ok" || u.code == "IncompleteInput") {
      // memory the caller has to provision for the result: bytes held when the call returns.
      // (The instantaneous peak is not monotone: whether the pool table doubles while a long key
      // sits in the string builder depends on how many slots earlier members took; it is counted.)
      if (f.liveAtReturn > u.liveAtReturn)
        violate("C11:more-memory", "filtered run holds more memory at return: " + std::to_string(f.liveAtReturn) + " vs " +
                                       std::to_string(u.liveAtReturn) + " bytes, filter " + toText(d.filter) + " input " + hexdump(wire));
      if (f.peak > u.peak)
        count("probe.peak_not_monotone");
      count("probe.memory_compared");
    }
    return;
  }
  if (op.has("faultenum")) {
    // C05: every single-failure position and every fail-from position of this deserialization
    RK k = op.has("kinds") && op.str("kinds") != "all" ? rkFromName(op.str("kinds")) : RK::CPtrN;
    if (d.msgpack && rkZeroTerminated(k))
      k = RK::CPtrN;
    OneResult base0 = runOne(k, d, wire, cx.t);
    for (uint64_t pos = 1; pos <= base0.failable && pos <= 200; pos++) {
      for (int from = 0; from < 2; from++) {
        Delivery df = d;
        if (from)
          df.gFailFrom = pos;
        else
          df.gFailAt = pos;
        count(from ? "fault.positions_from" : "fault.positions_single");
        try {
          OneResult r = runOne(k, df, wire, nullptr);
          if (r.faultsFired)
            count("fault.alloc_fired", r.faultsFired);
          if (r.faultsFired == 0)
            violate("C05:harness", "fault position not reached");
          if (r.code == "NoMemory") {
            if (!r.overflowed)
              violate("C05:unreported-failure", "NoMemory but overflowed() is false");
            count("c05.failed_cleanly");
          } else if (r.code == base0.code && sameValue(r.walk, base0.walk)) {
            count("c05.absorbed");
          } else {
            violate("C05:unreported-failure", "an allocation failed during deserialization, the result is " + r.code + " / " +
                                                  toText(r.walk).substr(0, 80) + " instead of NoMemory or the fault-free " +
                                                  base0.code + " / " + toText(base0.walk).substr(0, 80));
          }
        } catch (Violation& v) {
          Plan derived = *cx.plan;
          Op q = op;
          q.kv.erase(std::remove_if(q.kv.begin(), q.kv.end(), [](const std::pair<std::string, std::string>& p) { return p.first == "faultenum"; }),
                     q.kv.end());
          q.setu(from ? "ff" : "fa", pos);
          q.set("kinds", rkName(k));
          derived.ops[cx.opIndex] = q;
          v.msg += "\n#DERIVED-PLAN\n" + derived.text();
          throw;
        }
      }
    }
    return;
  }
  deliverToKinds(op, d, wire, cx);
  if (op.has("refcheck"))
    refCheck(op, d, wire);
}

// ----------------------------------------------------------------- op: longstr (limits)
void opLongStr(const Op& op, Ctx& cx) {
  if (kMaxStr > 70000) {
    count("xfer.longstr_out_of_reach");
    return;  // 4-byte lengths: the limit is not reachable
  }
  long over = long(op.num("over"));
  size_t len = size_t(long(kMaxStr) + over);
  bool mp = op.str("fmt") == "mp";
  bool asKey = op.str("where") == "key";
  std::string s(len, 'x');
  for (size_t j = 0; j < len; j += 97)
    s[j] = char('a' + (j / 97) % 26);
  Val v = asKey ? Val::obj() : Val::str(s);
  if (asKey)
    v.o.emplace_back(s, Val::integer(1));
  std::string wire;
  if (mp) {
    RefMsgPackEncoder e;
    wire = e.encode(v);
  } else {
    RefJsonWriter w;
    wire = w.write(v);
  }
  Delivery d;
  d.msgpack = mp;
  RK k = op.has("kinds") && op.str("kinds") != "all" ? rkFromName(op.str("kinds")) : RK::CPtrN;
  if (mp && rkZeroTerminated(k))
    k = RK::CPtrN;
  if (k == RK::Variant)
    k = RK::CPtrN;
  OneResult r = runOne(k, d, wire, cx.t);
  count("probe.longstr");
  if (over > 0) {
    if (r.code != "NoMemory")
      violate("C19:length-limit", "a string of maxLength+" + std::to_string(over) + " bytes gives " + r.code + " instead of NoMemory");
    count("limit.string_too_long");
  } else {
    if (r.code != "Ok" || !sameValue(r.walk, v))
      violate("C19:length-limit", "a string of maxLength" + std::to_string(over) + " bytes gives " + r.code +
                                      " or a wrong value (length " + std::to_string(len) + ")");
    count("limit.string_at_limit");
  }
}

// ----------------------------------------------------------------- op: stream (C16)
void opStream(const Op& op, Ctx& cx) {
  bool mp = op.str("fmt") == "mp";
  Val docs = parseText(op.str("docs"));
  normalise(docs, kUseDouble);
  std::string kindName = op.str("kind", "istream");
  RK kind = rkFromName(kindName);
  // separators: one quoted string per gap (before doc 0, between docs…), '|' separated
  std::vector<std::string> seps;
  {
    std::string all = op.str("seps");
    size_t p = 0;
    while (p < all.size()) {
      seps.push_back(unquote(all, p));
      if (p < all.size() && all[p] == '|')
        p++;
    }
  }
  // comments that go with the separators where the build's dialect has comments (they are blanks there)
  std::vector<std::string> cmts;
  if (kComments && op.has("cmts")) {
    std::string all = op.str("cmts");
    size_t p = 0;
    while (p < all.size()) {
      cmts.push_back(unquote(all, p));
      if (p < all.size() && all[p] == '|')
        p++;
    }
    count("stream.with_comments");
  }
  std::vector<size_t> chunks;
  if (op.has("chunks")) {
    std::stringstream ss(op.str("chunks"));
    std::string tok;
    while (std::getline(ss, tok, ','))
      chunks.push_back(size_t(strtoull(tok.c_str(), nullptr, 10)));
  }
  std::string tailA = op.qstr("tail"), tailB = op.qstr("tail2");
  bool hasFilter = op.has("filter");
  Val filterModel = hasFilter ? parseText(op.str("filter")) : Val::boolean(true);
  struct Piece {
    size_t start, valueStart, end;
    Val v;
    bool number;
  };
  auto build = [&](const std::string& tail, std::vector<Piece>& pieces) {
    std::string wire;
    for (size_t j = 0; j < docs.a.size(); j++) {
      Piece pc;
      pc.start = wire.size();
      std::string sep = j < seps.size() ? seps[j] : std::string();
      const Val& dv = docs.a[j];
      pc.number = dv.isNum();
      if (!mp) {
        // JSON: a number must be followed by a byte that ends it; whitespace by construction
        if (j > 0 && docs.a[j - 1].isNum() && (sep.empty() || std::string(" \t\r\n").find(sep[0]) == std::string::npos))
          sep = "\n" + sep;
        wire += sep;
        if (j < cmts.size())
          wire += cmts[j];
      }
      pc.valueStart = wire.size();
      if (mp) {
        RefMsgPackEncoder e;
        wire += e.encode(dv);
      } else {
        JsonSpelling sp;
        sp.nan = kNaN;
        sp.inf = kInf;
        sp.rawControl = !kDecodeUnicode;
        RefJsonWriter w(sp);
        wire += w.write(dv);
      }
      pc.end = wire.size();
      pc.v = mp ? dv : jsonImage(dv, kUseDouble, nullptr, kNaN, kInf);
      pieces.push_back(pc);
    }
    if (!mp && !docs.a.empty() && docs.a.back().isNum())
      wire += "\n";
    wire += tail;
    return wire;
  };
  std::vector<std::vector<std::string>> transcripts;
  for (int variant = 0; variant < 2; variant++) {
    std::vector<Piece> pieces;
    std::string wire = build(variant ? tailB : tailA, pieces);
    if (!mp && !kDecodeUnicode) {
      bool nul = false;
      for (auto& pc : pieces)
        visitc(pc.v, [&](const Val& x) {
          if (x.s.find('\0') != std::string::npos)
            nul = true;
          for (auto& m : x.o)
            if (m.first.find('\0') != std::string::npos)
              nul = true;
        });
      if (nul)
        return;  // not expressible without \u0000
    }
    ReaderStats st;
    st.available = wire.size();
    SimStreambuf sb(wire, st, chunks);
    std::istream in(&sb);
    SimCustomReader cr(wire, st);
    SimArduinoStream as(wire, st);
    SimAllocator alloc(7, nullptr);
    SimAllocator falloc(8, nullptr);
    std::vector<std::string> tr;
    {
      JsonDocument fdoc(&falloc);
      if (hasFilter)
        buildFilterDoc(fdoc, filterModel);
      DeserializationOption::Filter flt(fdoc.as<JsonVariantConst>());
      JsonDocument doc(&alloc);
      auto position = [&]() -> size_t { return kind == RK::IStream ? sb.position() : kind == RK::Custom ? cr.position() : as.position(); };
      for (size_t j = 0; j < pieces.size(); j++) {
        DeserializationError err = DeserializationError::Ok;
        if (hasFilter)
          err = mp ? (kind == RK::IStream ? deserializeMsgPack(doc, in, flt)
                      : kind == RK::Custom ? deserializeMsgPack(doc, cr, flt)
                                           : deserializeMsgPack(doc, as, flt))
                   : (kind == RK::IStream ? deserializeJson(doc, in, flt)
                      : kind == RK::Custom ? deserializeJson(doc, cr, flt)
                                           : deserializeJson(doc, as, flt));
        else
          err = mp ? (kind == RK::IStream ? deserializeMsgPack(doc, in)
                      : kind == RK::Custom ? deserializeMsgPack(doc, cr)
                                           : deserializeMsgPack(doc, as))
                   : (kind == RK::IStream ? deserializeJson(doc, in)
                      : kind == RK::Custom ? deserializeJson(doc, cr)
                                           : deserializeJson(doc, as));
        size_t pos = position();
        const Piece& pc = pieces[j];
        count("stream.calls");
        if (err != DeserializationError::Ok)
          violate("C16:document-lost", "call #" + std::to_string(j) + " on a stream of " + std::to_string(pieces.size()) +
                                           " documents returned " + err.c_str() + " (document " + toText(pc.v).substr(0, 60) +
                                           ", wire " + hexdump(wire, 120) + ")");
        Val got = extract(doc.as<JsonVariantConst>());
        std::string why;
        Val want = hasFilter ? project(pc.v, filterModel) : pc.v;
        if (!(mp ? sameValue(want, got) : looselyEqual(want, got, &why)))
          violate("C16:wrong-document", "call #" + std::to_string(j) + " returned " + toText(got).substr(0, 80) +
                                            " instead of " + toText(pc.v).substr(0, 80));
        size_t allowedEnd = pc.end + ((!mp && pc.number) ? 1 : 0);
        if (pos < pc.end || pos > allowedEnd)
          violate("C16:consumption", "call #" + std::to_string(j) + " consumed up to offset " + std::to_string(pos) +
                                         ", the document ends at " + std::to_string(pc.end) +
                                         (pc.number ? " (+1 allowed for a number)" : "") + "; wire " + hexdump(wire, 120));
        tr.push_back(std::string(err.c_str()) + "/" + toText(got) + "/" + std::to_string(pos));
        sketch("states", hashStr(tr.back(), j));
      }
      if (variant == 0 && tailA.empty()) {
        DeserializationError err = mp ? (kind == RK::IStream ? deserializeMsgPack(doc, in)
                                         : kind == RK::Custom ? deserializeMsgPack(doc, cr)
                                                              : deserializeMsgPack(doc, as))
                                      : (kind == RK::IStream ? deserializeJson(doc, in)
                                         : kind == RK::Custom ? deserializeJson(doc, cr)
                                                              : deserializeJson(doc, as));
        if (err != DeserializationError::EmptyInput)
          violate("C16:after-last", std::string("after the last document the call returned ") + err.c_str() + " instead of EmptyInput");
        count("probe.stream_empty_after_last");
      }
    }
    alloc.expectEmpty("C06:leak-at-destruction", "stream scenario");
    falloc.expectEmpty("C06:leak-at-destruction", "stream scenario (filter)");
    if (st.callsAfterEnd)
      violate("C03:read-after-end", "reader called after it had reported the end of input (stream scenario)");
    transcripts.push_back(tr);
    if (cx.t)
      for (auto& s : tr)
        cx.t->s(s);
  }
  if (transcripts.size() == 2 && transcripts[0] != transcripts[1])
    violate("C16:depends-on-later-bytes", "the results of the calls changed when the bytes after the last document changed");
}

// ----------------------------------------------------------------- calibration (C15)
void calibrate() {
  if (g_frameMax)
    return;
  // stack used at the reader seam for nesting 2 and nesting 12, each format, with and without filter:
  // the largest per-level increment is the frame bound
  size_t best = 0;
  for (int mp = 0; mp < 2; mp++)
    for (int filt = 0; filt < 2; filt++)
      for (int shape = 0; shape < 2; shape++) {
        size_t used[2] = {0, 0};
        int depths[2] = {2, 12};
        for (int q = 0; q < 2; q++) {
          Val v = Val::integer(1);
          for (int j = 0; j < depths[q]; j++) {
            Val w = shape ? Val::obj() : Val::arr();
            if (shape)
              w.o.emplace_back("k", v);
            else
              w.a.push_back(v);
            v = w;
          }
          std::string wire;
          if (mp) {
            RefMsgPackEncoder e;
            wire = e.encode(v);
          } else {
            RefJsonWriter w;
            wire = w.write(v);
          }
          Delivery d;
          d.msgpack = mp;
          d.nl = 40;
          d.checkReuse = false;
          if (filt) {
            d.hasFilter = true;
            d.filter = Val::boolean(false);
          }
          size_t keep = g_frameMax;
          g_frameMax = 0;
          OneResult r = runOne(RK::Custom, d, wire, nullptr);
          g_frameMax = keep;
          used[q] = r.stackUsed;
        }
        if (used[1] > used[0]) {
          size_t per = (used[1] - used[0]) / 10 + 1;
          if (per > best)
            best = per;
        }
      }
  g_frameMax = best ? best * 2 : 2048;  // factor 2: a frame may differ between value kinds
  g_stats.maxv("stack.frame_bound.max", g_frameMax);
}

}  // namespace

// ======================================================================= execution
Outcome execute(const Plan& plan) {
  Outcome out;
  Transcript t;
  g_ledger.reset();
  try {
    calibrate();
    for (size_t i = 0; i < plan.ops.size(); i++) {
      const Op& op = plan.ops[i];
      Ctx cx{&t, &plan, i};
      t.tag(op.name().c_str());
      if (op.name() == "deser")
        opDeser(op, cx);
      else if (op.name() == "stream")
        opStream(op, cx);
      else if (op.name() == "longstr")
        opLongStr(op, cx);
      else
        throw HarnessError("unknown xfer op " + op.name());
      count("xfer.ops");
    }
  } catch (const Violation& v) {
    out.ok = false;
    out.cls = v.cls;
    out.msg = v.msg;
  }
  out.hash = t.h;
  out.obs = t.h;
  out.steps = t.events;
  return out;
}

// ======================================================================= generation
namespace {

std::string chunkSpec(Rng& r) {
  unsigned sel = unsigned(r.below(4));
  if (sel == 0)
    return "1";
  if (sel == 1)
    return std::to_string(1 + r.below(7));
  std::string s;
  size_t n = 1 + size_t(r.below(5));
  for (size_t j = 0; j < n; j++) {
    if (j)
      s += ',';
    s += std::to_string(1 + r.below(r.chance(1, 3) ? 64 : 9));
  }
  return s;
}

Val genFilter(Rng& r, const Val* shapeLike, int depth) {
  unsigned sel = unsigned(r.below(100));
  if (depth >= 3 || sel < 25)
    return Val::boolean(true);
  if (sel < 33)
    return Val::boolean(false);
  if (sel < 38)
    return Val::null();
  if (sel < 43)
    return Val::integer(r.chance(1, 2) ? 1 : int64_t(r.below(3)));
  if (sel < 46)
    return Val::str(r.chance(1, 2) ? "x" : "");
  if (sel < 70) {
    Val f = Val::arr();
    size_t n = size_t(r.below(3));
    const Val* child = (shapeLike && shapeLike->k == K::Arr && !shapeLike->a.empty()) ? &shapeLike->a[r.below(shapeLike->a.size())] : nullptr;
    for (size_t j = 0; j < n; j++)
      f.a.push_back(genFilter(r, child, depth + 1));
    return f;
  }
  Val f = Val::obj();
  bool wildcard = r.chance(1, 3);
  size_t n = size_t(r.below(4));
  for (size_t j = 0; j < n; j++) {
    std::string key;
    const Val* child = nullptr;
    if (shapeLike && shapeLike->k == K::Obj && !shapeLike->o.empty() && r.chance(3, 4)) {
      auto& m = shapeLike->o[r.below(shapeLike->o.size())];
      key = m.first;
      child = &m.second;
    } else {
      GenOpts go;
      go.asciiOnly = true;
      key = genString(r, go, true);
    }
    if (key == "*" || f.member(key))
      continue;
    Val sub = genFilter(r, child, depth + 1);
    if (wildcard && sub.k == K::Null)
      sub = Val::boolean(false);  // a null entry next to "*" is indistinguishable from no entry
    f.o.emplace_back(key, sub);
  }
  if (wildcard) {
    Val w = genFilter(r, nullptr, depth + 1);
    f.o.emplace_back("*", w);
  }
  return f;
}

GenOpts inputOpts(bool mp) {
  GenOpts g;
  g.maxDepth = 4;
  g.maxWidth = 5;
  g.maxStr = 60;
  g.allowRaw = false;
  g.allowBin = mp;
  g.extremeDoubles = mp;
  g.allowNonFinite = mp;
  g.allowNulInStr = true;
  g.allowNulInKey = true;  // keys are compared with their size since /repo 509e18d
  return g;
}

std::string encodeValid(Rng& r, const Val& v, bool mp, bool fancy) {
  if (mp) {
    MpEncodeOpts o;
    o.rng = &r;
    o.nonMinimal = fancy;
    RefMsgPackEncoder e(o);
    return e.encode(v);
  }
  JsonSpelling sp;
  if (fancy) {
    sp.rng = &r;
    sp.whitespace = true;
    sp.escapes = true;
    sp.surrogates = true;
    sp.numbers = true;
  }
  RefJsonWriter w(sp);
  return w.write(v);
}

bool hasNul(const Val& v) {
  bool nul = false;
  visitc(v, [&](const Val& x) {
    if (x.k == K::Str && x.s.find('\0') != std::string::npos)
      nul = true;
  });
  return nul;
}

size_t depthOf(const Val& v) {
  return v.nesting();
}

// offsets of structural characters of a JSON text (outside strings)
std::vector<size_t> structuralOffsets(const std::string& t, const char* which) {
  std::vector<size_t> o;
  bool in = false;
  for (size_t j = 0; j < t.size(); j++) {
    char c = t[j];
    if (in) {
      if (c == '\\')
        j++;
      else if (c == '"')
        in = false;
    } else if (c == '"') {
      in = true;
    } else if (strchr(which, c)) {
      o.push_back(j);
    }
  }
  return o;
}

// dialect spellings of a compact JSON text (same value): unquoted identifier keys, single quotes
std::string dialectUnquoteKeys(Rng& r, const std::string& b, bool* changed = nullptr) {
  std::string out;
  for (size_t j = 0; j < b.size(); j++) {
    if (b[j] == '"') {
      size_t e = j + 1;
      bool ident = true;
      while (e < b.size() && b[e] != '"') {
        char c = b[e];
        if (!((c >= '0' && c <= '9') || (c >= '_' && c <= 'z') || (c >= 'A' && c <= 'Z')) || c == '\\')
          ident = false;
        if (c == '\\')
          e++;
        e++;
      }
      size_t a = e + 1;
      while (a < b.size() && (b[a] == ' ' || b[a] == '\t' || b[a] == '\n' || b[a] == '\r'))
        a++;
      bool isKey = a < b.size() && b[a] == ':';
      if (isKey && ident && e > j + 1 && r.chance(2, 3)) {
        out += b.substr(j + 1, e - j - 1);
        if (changed)
          *changed = true;
      } else {
        out += b.substr(j, e - j + 1);
      }
      j = e;
    } else {
      out += b[j];
    }
  }
  return out;
}
std::string dialectSingleQuotes(Rng& r, const std::string& b) {
  std::string out;
  for (size_t j = 0; j < b.size(); j++) {
    if (b[j] == '"') {
      size_t e = j + 1;
      bool plain = true;
      while (e < b.size() && b[e] != '"') {
        if (b[e] == '\\' || b[e] == '\'')
          plain = false;
        if (b[e] == '\\')
          e++;
        e++;
      }
      if (plain && r.chance(2, 3))
        out += "'" + b.substr(j + 1, e - j - 1) + "'";
      else
        out += b.substr(j, e - j + 1);
      j = e;
    } else {
      out += b[j];
    }
  }
  return out;
}

}  // namespace

Plan generate(const std::string& mode, uint64_t seed, uint64_t run) {
  Rng r(seed);
  Plan p;
  p.head.set("family", "xfer").set("mode", mode).setu("seed", seed).setu("run", run);
  bool mp = r.chance(1, 2);
  if (mode == "mpprefix" || mode == "mpcorrupt" || mode == "mpvalid" || mode == "mpbadkey")
    mp = true;
  if (mode == "jsonprefix" || mode == "token" || mode == "dialect" || mode == "jsonvalid")
    mp = false;
  GenOpts go = inputOpts(mp);
  auto fmt = [&](Op& op) { op.set("fmt", mp ? "mp" : "json"); };

  if (mode == "valid" || mode == "mpvalid" || mode == "jsonvalid") {
    // well-formed input in a seeded legal spelling: Ok and the value, through every kind
    bool dup = !mp && r.chance(1, 5);
    GenOpts gd = go;
    gd.dupKeys = dup;
    Val v = genValue(r, gd);
    if (!v.isContainer() && r.chance(1, 2)) {
      Val w = Val::arr();
      w.a.push_back(v);
      v = w;
    }
    if (r.chance(1, 6)) {
      // shapes on the header boundaries of both formats: 15/16/17 elements or members, strings of
      // 31/32/33, 255/256/257 and (rarely) 65535/65536 bytes
      static const size_t widths[] = {15, 16, 17, 31, 32};
      static const size_t lens[] = {31, 32, 33, 63, 64, 255, 256, 257};
      Val extra;
      unsigned what = unsigned(r.below(3));
      if (what == 0) {
        extra = Val::arr();
        size_t n = widths[r.below(5)];
        if (r.chance(1, 3)) {
          // around the pool and slot-id boundaries of the small builds (128 pools of one slot, 255 slot ids)
          static const size_t slotEdges[] = {126, 127, 128, 129, 130, 200, 246, 250, 253, 254, 255, 256, 260, 300};
          n = slotEdges[r.below(14)];
        }
        for (size_t j = 0; j < n; j++)
          extra.a.push_back(r.chance(1, 5) ? genScalar(r, go) : Val::integer(int64_t(j)));
      } else if (what == 1) {
        extra = Val::obj();
        size_t n = widths[r.below(5)];
        for (size_t j = 0; j < n; j++)
          extra.o.emplace_back("m" + std::to_string(j), r.chance(1, 5) ? genScalar(r, go) : Val::boolean(j & 1));
      } else {
        size_t n = r.chance(1, 12) ? 65534 + size_t(r.below(4)) : lens[r.below(8)];
        std::string str(n, 'y');
        for (size_t j = 0; j < n; j += 61)
          str[j] = char('A' + (j / 61) % 26);
        extra = r.chance(1, 4) ? Val::obj() : Val::str(str);
        if (extra.k == K::Obj)
          extra.o.emplace_back(str, Val::integer(1));  // as a key
      }
      if (v.k == K::Arr)
        v.a.push_back(extra);
      else if (v.k == K::Obj && !v.member("edge"))
        v.o.emplace_back("edge", extra);
      else
        v = extra;
    }
    if (dup) {
      // a repeated key: the last occurrence wins, at the position of the first. Make sure there is one,
      // and that the kinds of the two values vary (null after a number, scalar after a container …)
      Val o = Val::obj();
      std::string k = r.chance(1, 2) ? "a" : genString(r, go, true);
      GenOpts small = go;
      small.maxDepth = 1;
      o.o.emplace_back(k, genValue(r, small));
      if (r.chance(1, 2))
        o.o.emplace_back("between", genScalar(r, go));
      o.o.emplace_back(k, r.chance(1, 3) ? Val::null() : genValue(r, small));
      if (v.k == K::Arr)
        v.a.push_back(o);
      else if (v.k == K::Obj)
        v.o.emplace_back("dup", o);
      else
        v = o;
    }
    Op op = mkop("deser");
    fmt(op);
    op.setq("b", encodeValid(r, v, mp, true));
    size_t textDepth = depthOf(v);  // what the parser has to descend into, overwritten members included
    if (dup) {
      // what the text denotes is decided by the independent parser (last occurrence wins)
      std::string text = op.qstr("b");
      RefJsonParser rp(text, true);
      rp.allowPlus = true;
      auto parsed = rp.parseDocument();
      if (!parsed.ok)
        throw HarnessError("generator: the reference parser rejects the reference writer's text: " + parsed.error);
      v = parsed.value;
    }
    size_t depth = textDepth;
    if (r.chance(1, 3)) {
      int nl = int(depth + r.below(3));
      op.set("nl", nl);
    } else if (depth > ARDUINOJSON_DEFAULT_NESTING_LIMIT) {
      op.set("nl", int(depth));
    }
    op.set("kinds", "all").set("chunks", chunkSpec(r));
    op.set("expect", "Ok").set("value", toText(mp ? v : jsonImage(v, true))).set("loose", mp ? 0 : 1);
    op.setq("why", "well-formed input within the limits");
    if (!mp && hasNul(v))
      op.set("nounicode_skip", 1);
    p.ops.push_back(op);
  } else if (mode == "any" || mode == "anyfault") {
    // any bytes: valid, truncated, mutated, spliced, random
    GenOpts ga = go;
    if (r.chance(1, 4))
      ga.maxStr = 140;
    Val v = genValue(r, ga);
    std::string b = encodeValid(r, v, mp, r.chance(1, 2));
    if (!mp && r.chance(1, 4))
      b = dialectUnquoteKeys(r, b);
    if (!mp && r.chance(1, 6))
      b = dialectSingleQuotes(r, b);
    unsigned sel = unsigned(r.below(100));
    Op op = mkop("deser");
    fmt(op);
    if (sel < 15) {
      // pristine
    } else if (sel < 40) {
      op.setu("eof", r.below(b.size() + 1));
    } else if (sel < 65) {
      std::string flips;
      size_t n = 1 + size_t(r.below(3));
      for (size_t j = 0; j < n; j++)
        flips += (j ? "," : "") + std::to_string(r.below(b.size() + 1)) + ":" + std::to_string(1 + r.below(255));
      op.set("flip", flips);
    } else if (sel < 80) {
      Val v2 = genValue(r, go);
      std::string b2 = encodeValid(r, v2, mp, false);
      size_t cut = size_t(r.below(b.size() + 1)), cut2 = size_t(r.below(b2.size() + 1));
      b = b.substr(0, cut) + b2.substr(cut2);
    } else {
      size_t n = size_t(r.below(48));
      b.clear();
      static const char jsonish[] = "[]{}\",:0123456789.-+eE \n\t\\/*truefalsn'u";
      bool biased = r.chance(1, 2);
      for (size_t j = 0; j < n; j++)
        b += biased && !mp ? jsonish[r.below(sizeof jsonish - 1)] : char(r.below(256));
    }
    op.setq("b", b);
    if (r.chance(1, 2))
      op.set("nl", int(r.chance(2, 3) ? r.below(13) : (r.chance(1, 2) ? 255 : r.below(256))));
    if (r.chance(1, 3)) {
      op.set("filter", toText(genFilter(r, &v, 0)));
      op.set("ffirst", r.chance(1, 2) ? 1 : 0);
    }
    op.set("kinds", "all").set("chunks", chunkSpec(r));
    if (r.chance(1, 6))
      op.setu("short", r.below(b.size() + 1));
    if (mode == "anyfault") {
      static const unsigned dens[] = {2, 3, 5, 10, 25};
      op.set("bern", dens[r.below(5)]).setu("bseed", r.next() & 0xFFFFFF);
    }
    op.set("expect", "any");
    p.ops.push_back(op);
  } else if (mode == "mpprefix" || mode == "jsonprefix") {
    Val v = genValue(r, go);
    if (!mp && !v.isContainer() && v.k != K::Str) {
      Val w = Val::arr();
      w.a.push_back(v);
      v = w;
    }
    Op op = mkop("deser");
    fmt(op);
    std::string b = encodeValid(r, v, mp, true);
    op.setq("b", b);
    if (depthOf(v) > ARDUINOJSON_DEFAULT_NESTING_LIMIT)
      op.set("nl", int(depthOf(v)));
    static const char* ks[] = {"cptr_n", "istream", "custom", "astream", "std", "flash_n", "ucptr_n", "sv"};
    static const char* kj[] = {"cptr", "cptr_n", "istream", "custom", "astream", "astring", "flash", "variant", "mptr", "std"};
    op.set("kinds", mp ? ks[r.below(8)] : kj[r.below(10)]).set("chunks", chunkSpec(r));
    op.set("prefixes", "all").set("top", "container");
    // a filter changes which code reads the bytes (values are skipped, not stored) but not how an input that
    // ends too early is classified
    std::string filt;
    if (r.chance(1, 3)) {
      filt = toText(genFilter(r, &v, 0));
      op.set("filter", filt);
    }
    // a leading-whitespace-free JSON text: the first byte belongs to the value
    p.ops.push_back(op);
    // and the complete input once, with its value
    Op full = mkop("deser");
    fmt(full);
    full.setq("b", b);
    if (op.has("nl"))
      full.set("nl", op.str("nl"));
    full.set("kinds", op.str("kinds")).set("expect", "Ok").set("value", toText(mp ? v : jsonImage(v, true))).set("loose", mp ? 0 : 1);
    if (!filt.empty())
      full.set("filter", filt);
    if (!mp && hasNul(v))
      full.set("nounicode_skip", 1);
    p.ops.push_back(full);
  } else if (mode == "mpcorrupt" || mode == "corrupt") {
    Val v = genValue(r, go);
    Op op = mkop("deser");
    fmt(op);
    op.setq("b", encodeValid(r, v, mp, true));
    static const char* ks[] = {"cptr_n", "istream", "custom", "astream", "std"};
    op.set("kinds", ks[r.below(5)]).set("chunks", chunkSpec(r));
    op.setu("corrupt", r.next() & 0xFFFFFF).set("noff", 4);
    if (r.chance(1, 4))
      op.set("filter", toText(genFilter(r, &v, 0)));
    p.ops.push_back(op);
  } else if (mode == "mpbadkey") {
    // a well-formed beginning that ends where a map key is due
    GenOpts gk = go;
    gk.maxDepth = 2;
    std::string b;
    RefMsgPackEncoder enc;
    unsigned shape = unsigned(r.below(3));
    if (shape == 0) {
      b += char(0x81);
    } else if (shape == 1) {
      b += char(0x92);
      b += enc.encode(genValue(r, gk));
      b += char(0x82);
      b += enc.encode(Val::str(genString(r, gk, true)));
      b += enc.encode(genScalar(r, gk));
    } else {
      b += std::string("\xDE\x00\x03", 3);
      b += enc.encode(Val::str("first"));
      b += enc.encode(genValue(r, gk));
    }
    Op op = mkop("deser");
    op.set("fmt", "mp").setq("b", b).set("badkeys", 1);
    static const char* ks[] = {"cptr_n", "custom", "istream", "astream", "std"};
    op.set("kinds", ks[r.below(5)]);
    p.ops.push_back(op);
    // and the reserved code at a value position
    Op c1 = mkop("deser");
    std::string v1 = r.chance(1, 2) ? std::string("\x91\xC1", 2) : std::string("\x81\xA1k\xC1", 4);
    c1.set("fmt", "mp").setq("b", v1).set("kinds", "all").set("expect", "InvalidInput").setq("why", "reserved code 0xC1").set("cls", "C09:classification");
    p.ops.push_back(c1);
  } else if (mode == "token") {
    // faults whose class is known by construction
    Val v = genValue(r, go);
    if (!v.isContainer()) {
      Val w = Val::arr();
      w.a.push_back(v);
      w.a.push_back(Val::boolean(true));
      v = w;
    }
    std::string b = encodeValid(r, v, false, false);
    Op op = mkop("deser");
    fmt(op);
    unsigned sel = unsigned(r.below(100));
    std::string why;
    auto commas = structuralOffsets(b, ",");
    auto colons = structuralOffsets(b, ":");
    auto closers = structuralOffsets(b, "]}");
    if (sel < 30 && !commas.empty()) {
      size_t at = commas[r.below(commas.size())];
      static const char repl[] = {':', ' ', ';', '}'};
      char c = repl[r.below(3)];
      b[at] = c;
      why = "a ',' replaced by a wrong token";
    } else if (sel < 50 && !colons.empty()) {
      size_t at = colons[r.below(colons.size())];
      static const char repl[] = {',', ' ', '='};
      b[at] = repl[r.below(3)];
      why = "a ':' replaced by a wrong token";
    } else if (sel < 75 && !closers.empty()) {
      size_t at = closers[r.below(closers.size())];
      b[at] = b[at] == ']' ? '}' : ']';
      why = "mismatched closing bracket";
    } else if (sel < 82) {
      // structurally wrong token sequences (each is invalid in the documented dialect too)
      static const char* bad[] = {"[1,]", "[,1]", "{,}", "{\"a\":}", "{\"a\"}", "{:1}", "[}", "{]", "]", "}", "[1,,2]",
                                  "{\"a\":1,}", "{\"a\":1 \"b\":2}", "[\"a\":1]", "{\"a\":1,,\"b\":2}", "[1]]"  /* accepted: trailing bytes */,
                                  "[[1,2],]", "{\"a\":[1,2,]}", "[{\"a\":1,}]", ":", ",", "[\"a\",:]"};
      size_t pick = size_t(r.below(22));
      b = bad[pick];
      if (pick == 15) {
        // "[1]]" is a complete value followed by arbitrary bytes: accepted by the dialect
        op.set("expect", "Ok").set("value", "[u1]");
        why = "complete value followed by other bytes";
      } else {
        why = "structurally wrong token sequence";
        if (r.chance(1, 2) && b[0] != ']' && b[0] != '}' && b[0] != ':' && b[0] != ',') {
          b = "[0," + b + "]";  // the same, nested
        }
      }
    } else if (sel < 84) {
      // exponents far beyond any range: the literal is valid, the value is +-infinity or +-0
      static const char* lits[] = {"1e4294967297", "-1e4294967297", "1e-4294967297", "5e4294967298", "1e2147483649",
                                   "1e99999999999999999999", "-3.5e-2147483650", "1E+4294967300", "12e-99999999999"};
      static const double vals[] = {INFINITY, -INFINITY, 0.0, INFINITY, INFINITY, INFINITY, -0.0, INFINITY, 0.0};
      size_t pick = size_t(r.below(9));
      b = std::string("[") + lits[pick] + "]";
      Val want = Val::arr();
      want.a.push_back(Val::flt(float(vals[pick])));
      op.set("expect", "Ok").set("value", toText(want)).set("loose", 1).set("vcls", "C10:wrong-value");
      why = "numeric literal with an enormous exponent";
    } else if (sel < 88) {
      // keyword with a wrong letter
      static const char* bad[] = {"[trxe]", "[fals]", "[nul]", "{\"a\":tru }", "[nulL]", "[True]", "[1,flase]"};
      b = bad[r.below(7)];
      why = "misspelt keyword";
    } else {
      // a numeric literal longer than the documented 63 characters is not accepted (and is parsed safely)
      size_t len = 64 + size_t(r.below(r.chance(1, 2) ? 3 : 40));
      std::string num = r.chance(1, 2) ? "1." : "-12.5";
      while (num.size() < len)
        num += r.chance(1, 6) ? char('1' + r.below(9)) : '0';
      b = r.chance(1, 2) ? "[" + num + "]" : "{\"n\":" + num + "}";
      why = "numeric literal of " + std::to_string(len) + " characters";
      op.set("expect", "notok");
    }
    op.setq("b", b).setq("why", why).set("cls", "C10:wrong-token");
    if (!op.has("expect"))
      op.set("expect", "InvalidInput");
    if (depthOf(v) > ARDUINOJSON_DEFAULT_NESTING_LIMIT)
      op.set("nl", int(depthOf(v)));
    static const char* kj[] = {"cptr", "cptr_n", "istream", "custom", "astream", "std"};
    op.set("kinds", kj[r.below(6)]);
    p.ops.push_back(op);
  } else if (mode == "dialect") {
    // documented extensions spliced into valid texts: accepted with the dialect's value
    GenOpts g2 = go;
    g2.asciiOnly = true;
    g2.allowNulInStr = false;
    g2.allowNonFinite = false;
    Val v = genValue(r, g2);
    if (v.k != K::Obj) {
      Val w = Val::obj();
      w.o.emplace_back("key1", v);
      w.o.emplace_back("k_2", Val::str("it's"));
      v = w;
    }
    std::string b = encodeValid(r, v, false, false);
    unsigned sel = unsigned(r.below(100));
    Op op = mkop("deser");
    fmt(op);
    std::string why;
    Val expectV = jsonImage(v, true);
    if (sel < 25) {
      b += r.chance(1, 2) ? "xyz" : "]}garbage\"";
      why = "arbitrary bytes after a complete top-level value";
    } else if (sel < 50) {
      // unquoted identifier keys where the key allows it
      std::string out;
      bool changed = false;
      for (size_t j = 0; j < b.size(); j++) {
        if (b[j] == '"') {
          size_t e = j + 1;
          bool ident = true;
          while (e < b.size() && b[e] != '"') {
            char c = b[e];
            if (!((c >= '0' && c <= '9') || (c >= '_' && c <= 'z') || (c >= 'A' && c <= 'Z')) || c == '\\')
              ident = false;
            if (c == '\\')
              e++;
            e++;
          }
          bool isKey = e + 1 < b.size() && b[e + 1] == ':';
          if (isKey && ident && e > j + 1 && r.chance(2, 3)) {
            out += b.substr(j + 1, e - j - 1);
            changed = true;
          } else {
            out += b.substr(j, e - j + 1);
          }
          j = e;
        } else {
          out += b[j];
        }
      }
      b = out;
      why = changed ? "unquoted identifier keys" : "plain text";
    } else if (sel < 70) {
      // single-quoted strings (content without quotes of either kind or backslashes)
      std::string out;
      for (size_t j = 0; j < b.size(); j++) {
        if (b[j] == '"') {
          size_t e = j + 1;
          bool plain = true;
          while (e < b.size() && b[e] != '"') {
            if (b[e] == '\\' || b[e] == '\'')
              plain = false;
            if (b[e] == '\\')
              e++;
            e++;
          }
          if (plain && r.chance(2, 3))
            out += "'" + b.substr(j + 1, e - j - 1) + "'";
          else
            out += b.substr(j, e - j + 1);
          j = e;
        } else {
          out += b[j];
        }
      }
      b = out;
      why = "single-quoted strings";
    } else if (sel < 85) {
      // comments between tokens: accepted iff the build enables them
      // (1-3 of them, at any place where white space may stand; bodies drawn from the characters the
      // comment scanner itself looks at, so runs of '*' and '/' of either parity occur before the closer)
      auto comment = [&](bool closed) {
        std::string c;
        static const char alpha[] = "**//c \n\"*]";
        size_t n = size_t(r.below(7));
        if (r.chance(1, 2)) {
          c = "/*";
          for (size_t j = 0; j < n; j++) {
            char x = alpha[r.below(sizeof(alpha) - 1)];
            if (x == '/' && c.size() > 2 && c.back() == '*')
              x = ' ';  // would close the comment early
            c += x;
          }
          if (closed)
            c += "*/";
          else if (!c.empty() && c.back() == '/' && c.size() > 3 && c[c.size() - 2] == '*')
            c += 'x';
        } else {
          c = "//";
          for (size_t j = 0; j < n; j++) {
            char x = alpha[r.below(sizeof(alpha) - 1)];
            c += x == '\n' ? '*' : x;
          }
          if (closed)
            c += "\n";
        }
        return c;
      };
      bool truncated = r.chance(1, 6);
      if (truncated) {
        // the text ends inside a comment that stands inside the top-level value
        auto pos = structuralOffsets(b, ",:[{");
        size_t at = pos.empty() ? 0 : pos[r.below(pos.size())] + 1;
        if (at == 0) {
          b = "[1";
          at = 2;
        }
        b = b.substr(0, at) + comment(false);
        op.set("needs", "comments");
        op.setq("b", b).set("expect", "IncompleteInput").setq("why", "input ends inside a comment").set("cls", "C10:dialect");
        static const char* kj2[] = {"cptr", "cptr_n", "istream", "custom", "std", "astring"};
        op.set("kinds", kj2[r.below(6)]);
        p.ops.push_back(op);
        return p;
      }
      {
        // one insertion point on the comment-free text; one to three comments in a row there
        auto after = structuralOffsets(b, ",:[{");
        auto before = structuralOffsets(b, ",:]}");
        std::vector<size_t> places;
        for (size_t x : after)
          places.push_back(x + 1);
        for (size_t x : before)
          places.push_back(x);
        places.push_back(0);
        size_t at = places[r.below(places.size())];
        int howMany = 1 + int(r.below(3));
        std::string run;
        for (int c = 0; c < howMany; c++)
          run += comment(true) + (r.chance(1, 3) ? " " : "");
        b.insert(at, run);
      }
      op.set("needs", "comments");
      why = "comment between tokens";
    } else {
      b = r.chance(1, 2) ? "[NaN,1]" : "[-Infinity,Infinity]";
      op.set("needs", b[1] == 'N' ? "nan" : "inf");
      expectV = Val::arr();
      if (b[1] == 'N') {
        expectV.a.push_back(Val::flt(NAN));
        expectV.a.push_back(Val::integer(1));
      } else {
        expectV.a.push_back(Val::flt(-INFINITY));
        expectV.a.push_back(Val::flt(INFINITY));
      }
      why = "NaN / Infinity literals";
    }
    op.setq("b", b).set("expect", "Ok").set("value", toText(expectV)).set("loose", 1).setq("why", why).set("cls", "C10:dialect");
    if (depthOf(v) > ARDUINOJSON_DEFAULT_NESTING_LIMIT)
      op.set("nl", int(depthOf(v)));
    static const char* kj[] = {"cptr", "cptr_n", "istream", "custom", "std", "astring"};
    op.set("kinds", kj[r.below(6)]);
    p.ops.push_back(op);
  } else if (mode == "deep" && !mp && r.chance(1, 10)) {
    // not nesting at all: thousands of comments (or blanks) at ONE place of a flat text. The stack the parser uses
    // must not grow with them (the monitor at the reader seam compares it with the bound for this nesting limit).
    int L = 1 + int(r.below(4));
    Op op = mkop("deser");
    fmt(op);
    op.set("nl", L);
    size_t n = size_t(r.range(2000, 30000));
    std::string filler;
    unsigned what = unsigned(r.below(4));
    bool withFilter = r.chance(1, 3);
    if (withFilter && r.chance(1, 2))
      what = 3;  // (where the build has no comments a discarded value is skipped without being validated - see the
                 //  observations in DESIGN §6 - so with a filter the outcome is predicted for comment builds only)
    for (size_t j = 0; j < n; j++)
      filler += what == 0 ? "/**/" : what == 1 ? "//\n" : what == 2 ? (j & 1 ? "/* x */ " : "//y\n") : " \n";
    unsigned where = unsigned(r.below(4));
    std::string b = where == 0 ? filler + "[1,2]" : where == 1 ? "[" + filler + "1,2]" : where == 2 ? "[1" + filler + ",2]" : "{\"a\":" + filler + "[1,2]}";
    std::string value = where == 3 ? "{\"a\":[u1,u2]}" : "[u1,u2]";
    if (what != 3)
      op.set("needs", withFilter ? "comments-else-any" : "comments");
    op.setq("b", b).set("expect", "Ok").set("value", value).setq("why", "a flat text with a long run of comments or blanks at one place");
    if (where == 3 && L < 2)
      op.set("nl", 2);
    if (withFilter)
      op.set("filter", where == 3 ? "{\"b\":t}" : "f");
    static const char* ks[] = {"custom", "istream", "astream", "custom"};
    op.set("kinds", ks[r.below(4)]);
    p.ops.push_back(op);
  } else if (mode == "deep") {
    // (counted at execution: see code.TooDeep / probe counters)
    // hostile peer: nesting well beyond the limit, or exactly at / one above it
    int L = int(r.chance(1, 2) ? r.below(13) : (r.chance(1, 2) ? 255 : r.below(256)));
    unsigned sel = unsigned(r.below(100));
    Op op = mkop("deser");
    fmt(op);
    op.set("nl", L);
    std::string b;
    if (sel < 50) {
      // well-formed, depth L or L+1, mixed arrays/objects
      int depth = L + (r.chance(1, 2) ? 1 : 0);
      if (r.chance(1, 5) && L > 1)
        depth = int(r.below(uint64_t(L)));
      Val v = Val::integer(5);
      for (int j = 0; j < depth; j++) {
        Val w;
        if (r.chance(1, 2)) {
          w = Val::arr();
          if (r.chance(1, 3))
            w.a.push_back(Val::str("pad"));
          w.a.push_back(v);
        } else {
          w = Val::obj();
          if (r.chance(1, 3))
            w.o.emplace_back("p", Val::boolean(true));
          w.o.emplace_back("k", v);
        }
        v = w;
      }
      b = encodeValid(r, v, mp, false);
      op.set("expect", depth > L ? "TooDeep" : "Ok").set("cls", "C15:too-deep-iff");
      op.setq("why", "well-formed input of depth " + std::to_string(depth) + " with limit " + std::to_string(L));
      if (depth <= L)
        op.set("value", toText(v)).set("loose", 1);
    } else {
      // thousands of openers (never closed); or exactly L+1 of them and then the end of the input:
      // TooDeep is due as soon as the opener at depth L+1 has been seen
      size_t n = size_t(r.chance(1, 4) ? 1000 + r.below(200000) : 300 + r.below(3000));
      bool exact = r.chance(1, 3);
      if (exact)
        n = size_t(L) + 1;
      unsigned shape = unsigned(r.below(mp ? 6 : 4));
      bool keyPosition = mp && shape >= 4;  // maps nested in *key* position: not a string key, so never accepted
      if (shape == 5)
        b += char(0x91);
      for (size_t j = 0; j < n; j++) {
        if (mp) {
          switch (shape) {
            case 4:
            case 5:
              b += char(0x81);
              break;
            case 0:
              b += char(0x91);
              break;
            case 1:
              b += std::string("\xDC\x00\x01", 3);
              break;
            case 2:
              b += std::string("\x81\xA0", 2);
              break;
            default:
              b += std::string("\xDF\x00\x00\x00\x01\xA1k", 7);
          }
        } else {
          switch (shape) {
            case 0:
              b += '[';
              break;
            case 1:
              b += "{\"\":";
              break;
            case 2:
              b += "[ ";
              break;
            default:
              b += "{a:";
          }
        }
      }
      if (exact && !mp && r.chance(1, 2))
        b += r.chance(1, 2) ? " " : "\n\t ";
      op.set("expect", keyPosition ? "notok" : "TooDeep").set("cls", "C15:too-deep-iff").setq("why", std::to_string(n) + " unclosed openers");
    }
    op.setq("b", b);
    if (r.chance(1, 2)) {
      // also inside parts that a filter discards
      static const char* fs[] = {"f", "n", "{}", "[]", "{\"zz\":t}", "[f]", "t"};
      op.set("filter", fs[r.below(7)]);
      if (op.str("expect") == "Ok")
        op.set("expect", "Ok");  // projection applied by the executor
    }
    static const char* ks[] = {"custom", "istream", "astream", "cptr_n"};
    op.set("kinds", ks[r.below(4)]).set("chunks", chunkSpec(r));
    p.ops.push_back(op);
  } else if (mode == "hostile") {
    // headers that announce huge lengths or counts
    Op op = mkop("deser");
    op.set("fmt", "mp");
    unsigned sel = unsigned(r.below(8));
    std::string b;
    auto be = [&](uint64_t x, int n) {
      for (int j = n - 1; j >= 0; j--)
        b += char((x >> (8 * j)) & 0xFF);
    };
    uint64_t big = r.chance(1, 2) ? 0xFFFFFFFFull - r.below(4) : (1ull << (16 + r.below(16))) + r.below(3);
    uint64_t mid = 0x10000ull - 2 + r.below(5);
    switch (sel) {
      case 0:
        b += char(0xDB);
        be(big, 4);
        break;  // str 32
      case 1:
        b += char(0xC6);
        be(big, 4);
        break;  // bin 32
      case 2:
        b += char(0xC9);
        be(big, 4);
        b += char(1);
        break;  // ext 32
      case 3:
        b += char(0xDD);
        be(big, 4);
        break;  // array 32
      case 4:
        b += char(0xDF);
        be(big, 4);
        break;  // map 32
      case 5:
        b += char(0xDA);
        be(0xFFFF - r.below(3), 2);
        break;  // str 16 near 65535
      case 6:
        b += char(0x81);
        b += char(0xDB);
        be(big, 4);
        break;  // map with a huge key
      default:
        b += char(0x92);
        b += char(0xDB);
        be(mid, 4);
        b += "abc";
        break;
    }
    size_t tail = size_t(r.below(40));
    for (size_t j = 0; j < tail; j++)
      b += char(r.chance(1, 2) ? 0x01 : r.below(256));
    op.setq("b", b);
    static const char* ks[] = {"cptr_n", "custom", "istream", "astream", "std"};
    op.set("kinds", ks[r.below(5)]).set("expect", "notok").setq("why", "announced length or count exceeds the input").set("cls", "C09:prefix");
    if (r.chance(1, 3))
      op.set("filter", r.chance(1, 2) ? "f" : "{\"a\":t}");
    p.ops.push_back(op);
  } else if (mode == "filter") {
    Val v = genValue(r, go);
    if (!v.isContainer() && r.chance(3, 4)) {
      Val w = Val::obj();
      w.o.emplace_back("a", v);
      w.o.emplace_back("b", genValue(r, go));
      v = w;
    }
    Op op = mkop("deser");
    fmt(op);
    std::string b = encodeValid(r, v, mp, r.chance(1, 2));
    unsigned sel = unsigned(r.below(100));
    if (sel < 15)
      op.setu("eof", r.below(b.size() + 1));
    else if (sel < 30)
      op.set("flip", std::to_string(r.below(b.size() + 1)) + ":" + std::to_string(1 + r.below(255)));
    op.setq("b", b);
    if (depthOf(v) > ARDUINOJSON_DEFAULT_NESTING_LIMIT)
      op.set("nl", int(depthOf(v)));
    op.set("filter", toText(genFilter(r, &v, 0))).set("ffirst", r.chance(1, 2) ? 1 : 0);
    static const char* ks[] = {"cptr_n", "custom", "istream", "std", "astream"};
    op.set("kinds", ks[r.below(5)]).set("pair", 1).set("chunks", chunkSpec(r));  // (streams deliver in seeded pieces)
    p.ops.push_back(op);
  } else if (mode == "stream") {
    Op op = mkop("stream");
    fmt(op);
    size_t n = 2 + size_t(r.below(5));
    Val docs = Val::arr();
    GenOpts gs = go;
    gs.maxDepth = 2;
    gs.maxWidth = 3;
    gs.allowNonFinite = false;
    for (size_t j = 0; j < n; j++) {
      unsigned sel = unsigned(r.below(100));
      Val v;
      if (sel < 25)
        v = genValue(r, gs);
      else if (sel < 45) {
        v = Val::obj();
        v.o.emplace_back("id", Val::integer(int64_t(j)));
        v.o.emplace_back("v", genScalar(r, gs));
      } else if (sel < 60) {
        v = Val::arr();
        v.a.push_back(genScalar(r, gs));
      } else if (sel < 70) {
        std::string str = genString(r, gs, false);
        if (r.chance(1, 3))
          str += r.chance(1, 2) ? "\\" : "\\\"";  // ends with a backslash / backslash + quote
        v = Val::str(str);
      }
      else if (sel < 80)
        v = r.chance(1, 2) ? Val::boolean(r.chance(1, 2)) : Val::null();
      else if (sel < 92)
        v = Val::integer(genInt(r));
      else
        v = Val::dbl(genDouble(r, false));
      if (v.k == K::Raw)
        v = Val::integer(3);
      docs.a.push_back(v);
    }
    op.set("docs", toText(docs));
    std::string seps;
    static const char* wss[] = {"", "", "\n", " ", "\r\n", "\t", "  \n ", "\n\n"};
    for (size_t j = 0; j < n; j++) {
      if (j)
        seps += '|';
      seps += quote(mp ? "" : wss[r.below(8)]);
    }
    op.set("seps", seps);
    if (!mp && r.chance(1, 3)) {
      // (only used by builds whose dialect has comments)
      static const char* cs[] = {"", "/**/", "/***/", "/* x **/", "//\n", "// a */ b\n", "/*/ */", "/* \" ] */ ", "/****/\n", "/* * / */", "//*/\n/**/"};
      std::string cm;
      for (size_t j = 0; j < n; j++) {
        if (j)
          cm += '|';
        cm += quote(cs[r.below(11)]);
      }
      op.set("cmts", cm);
    }
    static const char* ks[] = {"istream", "custom", "astream"};
    op.set("kind", ks[r.below(3)]).set("chunks", chunkSpec(r));
    // two different tails: the results of the calls must not depend on them
    std::string t1, t2 = "}]\"\\x";
    if (r.chance(1, 2)) {
      t1 = "";
    } else {
      t1 = "[[[1,2";
    }
    if (mp) {
      t2 = std::string("\xC1\xDD\xFF", 3);
      if (!t1.empty())
        t1 = std::string("\x93\x01", 2);
    }
    op.setq("tail", t1).setq("tail2", t2);
    if (r.chance(1, 3)) {
      // every call filtered: discarded parts are skipped, not parsed, and must be consumed exactly too
      static const char* fs[] = {"f", "{\"id\":t}", "[t]", "{\"v\":t,\"*\":f}", "{}", "[]", "[{\"id\":t}]", "n"};
      op.set("filter", r.chance(2, 3) ? std::string(fs[r.below(8)]) : toText(genFilter(r, &docs.a[0], 0)));
    }
    p.ops.push_back(op);
  } else if (mode == "faultenum") {
    GenOpts gf = go;
    gf.maxStr = 140;  // strings and keys that make the string builder grow several times
    Val v = genValue(r, gf);
    if (r.chance(1, 2)) {
      // keys of 32+ identifier characters (the builder starts with 31)
      Val o = Val::obj();
      size_t n = 1 + size_t(r.below(3));
      for (size_t j = 0; j < n; j++) {
        std::string key(size_t(28 + r.below(80)), 'k');
        for (auto& c : key)
          c = char('a' + r.below(26));
        o.o.emplace_back(key, genScalar(r, gf));
      }
      if (v.k == K::Arr)
        v.a.push_back(o);
      else
        v = o;
    }
    if (!v.isContainer()) {
      Val w = Val::arr();
      w.a.push_back(v);
      w.a.push_back(Val::str("a string that needs a block of its own, longer than the initial builder buffer"));
      v = w;
    }
    Op op = mkop("deser");
    fmt(op);
    std::string fb = encodeValid(r, v, mp, false);
    if (!mp && r.chance(1, 2))
      fb = dialectUnquoteKeys(r, fb);
    if (!mp && r.chance(1, 4))
      fb = dialectSingleQuotes(r, fb);
    op.setq("b", fb);
    if (depthOf(v) > ARDUINOJSON_DEFAULT_NESTING_LIMIT)
      op.set("nl", int(depthOf(v)));
    if (r.chance(1, 3))
      op.set("filter", toText(genFilter(r, &v, 0)));
    static const char* ks[] = {"cptr_n", "custom", "istream", "std"};
    op.set("kinds", ks[r.below(4)]).set("faultenum", 1);
    p.ops.push_back(op);
  } else if (mode == "limits") {
    Op op = mkop("longstr");
    fmt(op);
    op.set("over", int(r.range(-2, 2))).set("where", r.chance(1, 3) ? "key" : "value");
    static const char* ks[] = {"cptr_n", "custom", "istream", "std", "cptr"};
    op.set("kinds", ks[r.below(5)]);
    p.ops.push_back(op);
  } else {
    throw HarnessError("unknown xfer mode " + mode);
  }
  return p;
}

}  // namespace xfer
}  // namespace sim
