"""Self-tests of the machinery: determinism (and the auxiliary TSan stage)."""
import concurrent.futures as cf
import os
import re
import subprocess
import sys
import tempfile
import time

MODES = [
    ("sim", "hist", "free", 1500), ("sim", "hist", "twin", 600), ("sim", "hist", "limit", 120),
    ("sim", "hist", "faultenum", 300), ("sim", "hist", "limitfault", 6), ("sim", "hist", "soak", 60),
    ("sim", "xfer", "any", 1500), ("sim", "xfer", "valid", 800), ("sim", "xfer", "mpprefix", 300),
    ("sim", "xfer", "jsonprefix", 300), ("sim", "xfer", "mpcorrupt", 60), ("sim", "xfer", "token", 800),
    ("sim", "xfer", "dialect", 800), ("sim", "xfer", "deep", 600), ("sim", "xfer", "hostile", 600),
    ("sim", "xfer", "filter", 1500), ("sim", "xfer", "stream", 1500), ("sim", "xfer", "faultenum", 300),
    ("sim", "xfer", "limits", 40),
    ("sim", "sink", "json", 600), ("sim", "sink", "mp", 600),
    ("conc", "conc", "parked", 240), ("conc", "conc", "cold", 48),
]


def hashes(binary, family, mode, seed, lo, hi, outdir):
    env = dict(os.environ)
    env["SIM_PRINT_HASHES"] = "1"
    r = subprocess.run([binary, "batch", family, mode, str(seed), str(lo), str(hi), outdir, "0", "1000"],
                       stdout=subprocess.PIPE, stderr=subprocess.PIPE, env=env)
    out = {}
    for line in r.stdout.decode("latin-1").split("\n"):
        m = re.match(r"HASH run=(\d+) hash=(\w+) obs=(\w+)", line)
        if m:
            out[int(m.group(1))] = (m.group(2), m.group(3))
    return out


def determinism(drv, cfgs=("A", "B")):
    seed = int(os.environ.get("VERIF_SEED", "4242"))
    kinds = sorted(set((k, c) for k, _, _, _ in MODES for c in cfgs if not (k == "conc" and c != "A")))
    drv.ensure_built(kinds)
    os.makedirs(os.path.join(drv.BUILD, "scratch"), exist_ok=True)
    outdir = tempfile.mkdtemp(prefix="selftest-", dir=os.path.join(drv.BUILD, "scratch"))
    bad = 0
    total = 0
    t0 = time.time()
    for kind, family, mode, n in MODES:
        for cfg in cfgs:
            if kind == "conc" and cfg != "A":
                continue
            binary = drv.binary_path(kind, cfg)
            results = []
            for workers in (1, 4, 16):
                per = (n + workers - 1) // workers
                chunks = [(i * per, min(n, (i + 1) * per)) for i in range(workers) if i * per < n]
                merged = {}
                with cf.ThreadPoolExecutor(max_workers=16) as ex:
                    for h in ex.map(lambda c: hashes(binary, family, mode, seed, c[0], c[1], outdir), chunks):
                        merged.update(h)
                results.append(merged)
            ref = results[0]
            diverged = [r for r in ref if any(res.get(r) != ref[r] for res in results[1:])]
            missing = [r for r in range(n) if any(r not in res for res in results)]
            total += len(ref)
            status = "ok"
            if diverged or missing:
                bad += 1
                status = "DIVERGED runs %s missing %s" % (diverged[:5], missing[:5])
            print("[determinism] %-5s %-10s cfg=%s: %d runs x 3 worker counts (1,4,16 processes): %s" %
                  (family, mode, cfg, len(ref), status), flush=True)
    print("[determinism] %d runs compared three times each in %.0fs: %s" %
          (total, time.time() - t0, "all identical" if not bad else "%d batches diverged" % bad))
    return 2 if bad else 0


def tsan(drv):
    """auxiliary stage: the conc workload on free-running threads under ThreadSanitizer (not deterministic)"""
    drv.ensure_built([("tsan", "A")])
    os.makedirs(os.path.join(drv.BUILD, "scratch"), exist_ok=True)
    outdir = tempfile.mkdtemp(prefix="tsan-", dir=os.path.join(drv.BUILD, "scratch"))
    env = dict(os.environ)
    env["TSAN_OPTIONS"] = "exitcode=66:halt_on_error=1"
    seed = int(os.environ.get("VERIF_SEED", "4242"))
    r = subprocess.run([drv.binary_path("tsan", "A"), "batch", "conc", "free", str(seed), "0", "300", outdir, "120000", "3"],
                       stdout=subprocess.PIPE, stderr=subprocess.PIPE, env=env)
    err = r.stderr.decode("latin-1")
    races = err.count("WARNING: ThreadSanitizer: data race")
    done = re.search(r"DONE runs=(\d+)", r.stdout.decode("latin-1"))
    print("[tsan] free-running conc workload: %s runs, %d data-race report(s), exit %d" %
          (done.group(1) if done else "?", races, r.returncode))
    if races:
        print("AUX-RACE (runtime monitoring, not a replayable violation):")
        print("\n".join(err.split("\n")[:40]))
        return 2
    return 0 if r.returncode == 0 else 2


def valgrind(drv, runs=150):
    """cross-check for reads of uninitialised memory (which ASan does not report): a plain build of the
    simulator under valgrind memcheck, a few hundred plans of the families that allocate most"""
    drv.ensure_built([("plain", "A"), ("plain", "B")])
    os.makedirs(os.path.join(drv.BUILD, "scratch"), exist_ok=True)
    outdir = tempfile.mkdtemp(prefix="vg-", dir=os.path.join(drv.BUILD, "scratch"))
    seed = int(os.environ.get("VERIF_SEED", "4242"))
    jobs = []
    for cfg in ("A", "B"):
        for family, mode, n in (("hist", "free", runs), ("hist", "faultrand", runs), ("xfer", "any", runs),
                                ("xfer", "anyfault", runs), ("xfer", "mpcorrupt", 6), ("sink", "json", 40), ("sink", "mp", 40)):
            per = max(1, n // 4)
            for lo in range(0, n, per):
                jobs.append((cfg, family, mode, lo, min(n, lo + per)))

    def work(j):
        cfg, family, mode, lo, hi = j
        cmd = ["valgrind", "-q", "--error-exitcode=9", "--track-origins=no", "--undef-value-errors=yes",
               drv.binary_path("plain", cfg), "batch", family, mode, str(seed), str(lo), str(hi), outdir, "0", "3"]
        r = subprocess.run(cmd, stdout=subprocess.PIPE, stderr=subprocess.PIPE)
        return j, r.returncode, r.stdout.decode("latin-1"), r.stderr.decode("latin-1")

    bad = 0
    t0 = time.time()
    with cf.ThreadPoolExecutor(max_workers=int(os.environ.get("VERIF_JOBS", "16"))) as ex:
        for j, rc, out, err in ex.map(work, jobs):
            done = re.search(r"DONE runs=(\d+)", out)
            if rc != 0 or not done:
                bad += 1
                print("[valgrind] %s: exit %d\n%s" % (j, rc, "\n".join(err.split("\n")[:25])))
    print("[valgrind] %d batches (%s runs each family/config) in %.0fs: %s" %
          (len(jobs), runs, time.time() - t0, "no report" if not bad else "%d batches with reports" % bad))
    return 2 if bad else 0


def seeded(drv):
    """sensitivity: every seeded change under seeded/ is applied to the repository in turn and the check that
    is recorded as catching it must raise a replayable violation; the repository is restored each time"""
    import json
    import glob
    repo = drv.REPO
    if subprocess.run("git status --porcelain -- src", shell=True, cwd=repo, stdout=subprocess.PIPE).stdout.strip():
        print("[seeded] %s has local changes; refusing" % repo)
        return 2
    only = os.environ.get("VERIF_SEEDED", "")
    missed = []
    t0 = time.time()
    for d in sorted(glob.glob(os.path.join(drv.VERIF, "seeded", "*"))):
        name = os.path.basename(d)
        if only and only not in name:
            continue
        meta = json.load(open(os.path.join(d, "meta.json")))
        checks = meta.get("detected_by") or [meta["property"]]
        c = meta["property"] if meta["property"] in checks else checks[0]
        ev = os.path.join(drv.VERIF, "evidence", c + ".json")
        saved = open(ev).read() if os.path.exists(ev) else None
        r = subprocess.run(["git", "apply", os.path.join(d, "patch.diff")], cwd=repo, stdout=subprocess.PIPE, stderr=subprocess.STDOUT)
        if r.returncode != 0:
            print("[seeded] %s: patch no longer applies (%s)" % (name, r.stdout.decode()[:100].strip()))
            missed.append(name)
            continue
        try:
            r = subprocess.run([os.path.join(drv.VERIF, "bin/check"), c, "--tier", "quick"], cwd=drv.VERIF,
                               stdout=subprocess.PIPE, stderr=subprocess.STDOUT)
            out = r.stdout.decode("latin-1")
            viol = [l for l in out.splitlines() if l.startswith("VIOLATION")]
            first = [l for l in out.splitlines() if "violation class=" in l]
            ok = r.returncode == 1 and viol
            print("[seeded] %-36s check %s: %s %s" % (name, c, "caught" if ok else "MISSED (exit %d)" % r.returncode,
                                                      first[0][first[0].find("violation class="):][:110] if first else ""), flush=True)
            if not ok:
                missed.append(name)
        finally:
            subprocess.run("git checkout -- .", shell=True, cwd=repo)
            if saved is not None:
                open(ev, "w").write(saved)
            import shutil
            shutil.rmtree(os.path.join(drv.VERIF, "replays", c), ignore_errors=True)
    print("[seeded] %d missed %s in %.0fs" % (len(missed), missed, time.time() - t0))
    return 2 if missed else 0


def run(what, drv):
    if what == "seeded":
        return seeded(drv)
    if what == "valgrind":
        return valgrind(drv)
    if what == "determinism":
        return determinism(drv)
    if what == "tsan":
        return tsan(drv)
    print("unknown selftest " + what)
    return 3
