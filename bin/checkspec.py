"""What each check runs: batches of (family, mode) per configuration and tier.

A violation class is "<property>:<oracle>"; a check reports the classes of its own
property (plus every crash / sanitizer report met while running)."""

ALL_CFGS = ["A", "B", "C", "D", "E", "F", "G", "H"]
QUICK3 = ["A", "B", "D"]

COMPONENTS = {
    "real": ["/repo/src/ArduinoJson/** compiled from the working tree (clang++ -O1, ASan+UBSan, ARDUINOJSON_DEBUG=1)"],
    "simulated": ["ArduinoJson::Allocator (SimAllocator: ledger, fault plans, moving realloc, 0xA5 fill)",
                  "string sources (scratch blocks scribbled and freed when the call returns; arena for linked kinds)"],
    "mocks": ["Arduino String/Stream/Print/Printable/flash: the repository's own unit-test mocks"],
    "reference": ["ordered-tree model (sim/value.hpp)", "independent JSON parser/writer (sim/refjson.hpp)",
                  "independent MessagePack encoder/decoder (sim/refmsgpack.hpp)"],
}

HIST_RULE = ("plans are generated from VERIF_SEED by the hist generator (1-3 documents, 5-80 API operations over a table "
             "of live references); a plan is non-trivial when at least 3 of its operations were executed (not skipped); "
             "distinct = distinct plan texts")

CHECKS = {
    "C04": {
        "level": "exploration",
        "classes": ["C04"],
        "rule": HIST_RULE,
        "budget_s": {"quick": 70, "thorough": 1500},
        "batches": [
            {"family": "hist", "mode": "free", "cfgs": {"quick": QUICK3 + ["G"], "thorough": ALL_CFGS},
             "runs": {"quick": 12000, "thorough": 400000}},
        ],
        "probes": ["alias.copy:self:scalar", "op.cset", "op.doc", "op.deser"],
        "components": COMPONENTS,
        "assumptions": ["the reference model (sim/value.hpp, sim/hist.cpp) states the intended semantics",
                        "alias assignments listed in known_findings.jsonl are skipped in bulk runs and re-observed by reproducers"],
    },
    "C14": {
        "level": "exploration",
        "classes": ["C14"],
        "rule": HIST_RULE + "; every plan is executed on two replicas (strings offered linked vs through copied kinds) "
                "and every public accessor is compared after every operation",
        "budget_s": {"quick": 70, "thorough": 1200},
        "batches": [
            {"family": "hist", "mode": "twin", "cfgs": {"quick": ["A", "B"], "thorough": ["A", "B", "C", "D", "H"]},
             "runs": {"quick": 6000, "thorough": 150000}},
        ],
        "probes": ["twin.observations"],
        "components": COMPONENTS,
        "assumptions": ["replica L uses const char* / JsonString(linked) wherever the string has no NUL, replica C a hash-chosen "
                        "copied kind; JsonString::isLinked() is the only accessor excluded"],
    },
    "C19": {
        "level": "exploration",
        "classes": ["C19", "C04"],
        "rule": HIST_RULE + "; 'free' plans are executed by every configuration of the build matrix and their observable "
                "transcripts compared pairwise; 'limit' plans first fill the document up to the slot-id limit of the build",
        "budget_s": {"quick": 80, "thorough": 1500},
        "batches": [
            {"family": "hist", "mode": "free", "cfgs": {"quick": ["A", "B", "D", "F", "G"], "thorough": ALL_CFGS},
             "runs": {"quick": 4000, "thorough": 60000}, "cross_config": True},
            {"family": "hist", "mode": "limit", "cfgs": {"quick": ["B", "C", "F"], "thorough": ["B", "C", "F"]},
             "runs": {"quick": 1500, "thorough": 40000}},
            {"family": "hist", "mode": "limit", "cfgs": {"quick": ["D", "E", "G"], "thorough": ["D", "E", "G"]},
             "runs": {"quick": 48, "thorough": 1500}},
        ],
        "probes": ["limit.slots_exhausted", "fill.hit_limit"],
        "components": COMPONENTS,
        "assumptions": ["4-byte slot ids and 4-byte string lengths are never driven to their limit (out of reach); "
                        "only their arithmetic away from the edge is exercised"],
    },
    "C06": {
        "level": "exploration",
        "classes": ["C06"],
        "rule": HIST_RULE + "; every allocator call is checked against a ledger of live blocks shared by all allocator "
                "instances of the run",
        "budget_s": {"quick": 70, "thorough": 1500},
        "batches": [
            {"family": "hist", "mode": "free", "cfgs": {"quick": ["A", "B", "D", "G"], "thorough": ALL_CFGS},
             "runs": {"quick": 12000, "thorough": 300000}},
        ],
        "probes": ["probe.dedup_checked", "probe.free_list_nonempty"],
        "components": COMPONENTS,
        "assumptions": ["documents on the default allocator (moved-from documents) are outside the ledger; ASan covers them"],
    },
    "C05": {
        "level": "fault_enumeration",
        "classes": ["C05", "C06"],
        "rule": ("scenarios are hist plans of 3-25 operations; each is first run fault-free to count the failable allocator "
                 "calls of every operation, then replayed with every single-failure position and every fail-from position "
                 "of every operation (exhaustive per scenario, scenarios sampled); non-trivial = at least 3 executed operations"),
        "budget_s": {"quick": 80, "thorough": 1500},
        "batches": [
            {"family": "hist", "mode": "faultenum", "cfgs": {"quick": ["A", "B", "G"], "thorough": ALL_CFGS},
             "runs": {"quick": 1500, "thorough": 40000}},
        ],
        "probes": ["fault.alloc_fired", "c05.failed_cleanly", "c05.absorbed", "fault.positions_single", "fault.positions_from"],
        "components": COMPONENTS,
        "assumptions": ["a shrinking reallocate never fails (the property says so)",
                        "after a failure the model is re-synchronised on the region the operation targets, after validation"],
    },
}
