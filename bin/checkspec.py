"""What each check runs: batches of (family, mode) per configuration and tier.

A violation class is "<property>:<oracle>"; a check reports the classes of its own
property (plus every crash / sanitizer report met while running)."""

ALL_CFGS = ["A", "B", "C", "D", "E", "F", "G", "H", "J", "K"]
QUICK3 = ["A", "B", "D"]

COMPONENTS = {
    "real": ["/repo/src/ArduinoJson/** compiled from the working tree (clang++ -O1, ASan+UBSan, ARDUINOJSON_DEBUG=1)"],
    "simulated": ["ArduinoJson::Allocator (SimAllocator: ledger, fault plans, moving realloc, 0xA5 fill)",
                  "string sources (scratch blocks scribbled and freed when the call returns; arena for linked kinds)"],
    "mocks": ["Arduino String/Stream/Print/Printable/flash: the repository's own unit-test mocks"],
    "reference": ["ordered-tree model (sim/value.hpp)", "independent JSON parser/writer (sim/refjson.hpp)",
                  "independent MessagePack encoder/decoder (sim/refmsgpack.hpp)"],
}

HIST_RULE = ("plans are generated from VERIF_SEED by the hist generator (1-3 documents, 5-80 API operations over a table "
             "of live references); a plan is non-trivial when at least 3 of its operations were executed (not skipped); "
             "distinct = distinct plan texts")

CHECKS = {
    "C04": {
        "level": "exploration",
        "classes": ["C04", "C14:unterminated-string"],
        "rule": HIST_RULE,
        "budget_s": {"quick": 70, "thorough": 900},
        "batches": [
            {"family": "hist", "mode": "free", "cfgs": {"quick": QUICK3 + ["G", "E"], "thorough": ALL_CFGS},
             "runs": {"quick": 12000, "thorough": 400000}},
        ],
        "probes": ["alias.copy:self:scalar", "op.cset", "op.doc", "op.deser"],
        "components": COMPONENTS,
        "assumptions": ["the reference model (sim/value.hpp, sim/hist.cpp) states the intended semantics",
                        "alias assignments listed in known_findings.jsonl are skipped in bulk runs and re-observed by reproducers"],
    },
    "C14": {
        "level": "exploration",
        # reference counts are the mechanism behind "removing one user leaves the others intact"
        # (the model is storage-agnostic: a replica that disagrees with it has made the way a string is stored visible)
        "classes": ["C14", "C06:string-refcount", "C19:refcount-wrapped", "C04"],
        "rule": HIST_RULE + "; every plan is executed on two replicas (strings offered linked vs through copied kinds) "
                "and every public accessor is compared after every operation",
        "budget_s": {"quick": 70, "thorough": 900},
        "batches": [
            {"family": "hist", "mode": "twin", "cfgs": {"quick": ["A", "B"], "thorough": ["A", "B", "C", "D", "H"]},
             "runs": {"quick": 6000, "thorough": 150000}},
        ],
        "probes": ["twin.observations"],
        "components": COMPONENTS,
        "assumptions": ["replica L uses const char* / JsonString(linked) wherever the string has no NUL, replica C a hash-chosen "
                        "copied kind; JsonString::isLinked() is the only accessor excluded"],
    },
    "C19": {
        "level": "exploration",
        # a slot that is neither reachable nor free is a slot id lost for good: "usable again after values are removed"
        "classes": ["C19", "C04", "C06:slot-leak"],
        "rule": HIST_RULE + "; 'free' plans are executed by every configuration of the build matrix and their observable "
                "transcripts compared pairwise; 'limit' plans first fill the document up to the slot-id limit of the build",
        "budget_s": {"quick": 100, "thorough": 900},
        "batches": [
            {"family": "hist", "mode": "free", "cfgs": {"quick": ["A", "B", "D", "F", "G", "I", "J", "K"], "thorough": ALL_CFGS + ["I"]},
             "runs": {"quick": 4000, "thorough": 60000}, "cross_config": True},
            {"family": "hist", "mode": "limit", "cfgs": {"quick": ["B", "C", "F", "J", "K"], "thorough": ["B", "C", "F", "J", "K"]},
             "runs": {"quick": 1500, "thorough": 40000}},
            {"family": "hist", "mode": "limit", "cfgs": {"quick": ["D", "E", "G", "I"], "thorough": ["D", "E", "G", "I"]},
             "runs": {"quick": 48, "thorough": 900}},
            {"family": "hist", "mode": "limit", "cfgs": {"quick": ["A"], "thorough": ["A", "H"]},
             "runs": {"quick": 64, "thorough": 900}},
        ],
        "probes": ["limit.slots_exhausted", "fill.hit_limit"],
        "components": COMPONENTS,
        "assumptions": ["4-byte slot ids and 4-byte string lengths are never driven to their limit (out of reach); "
                        "only their arithmetic away from the edge is exercised"],
    },
    "C06": {
        "level": "exploration",
        "classes": ["C06"],
        "rule": HIST_RULE + "; every allocator call is checked against a ledger of live blocks shared by all allocator "
                "instances of the run",
        "budget_s": {"quick": 70, "thorough": 900},
        "batches": [
            {"family": "hist", "mode": "free", "cfgs": {"quick": ["A", "B", "D", "G"], "thorough": ALL_CFGS},
             "runs": {"quick": 12000, "thorough": 300000}},
        ],
        "probes": ["probe.dedup_checked", "probe.free_list_nonempty"],
        "components": COMPONENTS,
        "assumptions": ["documents on the default allocator (moved-from documents) are outside the ledger; ASan covers them"],
    },
    "C05": {
        "level": "fault_enumeration",
        "classes": ["C05", "C06"],
        "rule": ("scenarios are hist plans of 3-25 operations; each is first run fault-free to count the failable allocator "
                 "calls of every operation, then replayed with every single-failure position and every fail-from position "
                 "of every operation (exhaustive per scenario, scenarios sampled); non-trivial = at least 3 executed operations"),
        "budget_s": {"quick": 80, "thorough": 900},
        "batches": [
            {"family": "hist", "mode": "faultenum", "cfgs": {"quick": ["A", "B", "G"], "thorough": ALL_CFGS},
             "runs": {"quick": 1500, "thorough": 40000}},
        ],
        "probes": ["fault.alloc_fired", "c05.failed_cleanly", "c05.absorbed", "fault.positions_single", "fault.positions_from"],
        "components": COMPONENTS,
        "assumptions": ["a shrinking reallocate never fails (the property says so)",
                        "after a failure the model is re-synchronised on the region the operation targets, after validation"],
    },
}

XFER_COMPONENTS = dict(COMPONENTS)
XFER_COMPONENTS["simulated"] = COMPONENTS["simulated"] + [
    "reader seam: 13 input kinds over exactly-sized blocks; std::istream over a chunking streambuf; custom reader and "
    "Arduino Stream with byte/call accounting, EOF at any offset, one short readBytes",
    "the peer: independent JSON writer (seeded spellings) and MessagePack encoder (seeded legal widths)"]
SINK_COMPONENTS = dict(COMPONENTS)
SINK_COMPONENTS["simulated"] = COMPONENTS["simulated"] + [
    "writer seam: char buffers of every capacity (exactly-sized heap block, canaries, char[N]), std::string, std::ostream over a "
    "recording streambuf, custom writer and Arduino Print with short-write faults, Arduino String with a capacity limit"]

XFER_RULE = ("one plan = one input (bytes produced by the independent codecs from a seeded value, then faulted) delivered "
             "through the reader kinds the plan names; distinct = distinct plan texts; every plan is non-trivial "
             "(it delivers at least one input)")

CHECKS.update({
    "C02": {
        "level": "fault_enumeration",
        "classes": ["C02"],
        "rule": ("one plan = one document serialized as compact or pretty JSON into every destination kind, into a buffer of "
                 "EVERY capacity 0..len+2 and into a custom writer / Print that stops accepting at EVERY offset (exhaustive per "
                 "document, documents sampled); distinct = distinct plan texts"),
        "budget_s": {"quick": 70, "thorough": 900},
        "batches": [
            {"family": "sink", "mode": "json", "cfgs": {"quick": ["A", "B", "H"], "thorough": ALL_CFGS},
             "runs": {"quick": 18000, "thorough": 240000}},
            {"family": "sink", "mode": "jsonbig", "cfgs": {"quick": ["A"], "thorough": ["A", "D", "E"]},
             "runs": {"quick": 16, "thorough": 160}},
        ],
        "probes": ["fault.capacity_positions", "fault.short_write_positions", "sink.array_forms"],
        "components": SINK_COMPONENTS,
        "assumptions": ["std::ostream failure states are not injected (Writer<std::ostream> cannot observe them)",
                        "Arduino String beyond its capacity: only 'what is stored is a prefix' is asserted",
                        "conformance of the text is judged by sim/refjson.hpp, which tolerates raw control characters"],
    },
    "C08": {
        "level": "fault_enumeration",
        "classes": ["C08"],
        "rule": ("one plan = one document serialized as MessagePack into every destination kind, into a buffer of EVERY capacity "
                 "0..len+2 and into short-writing sinks at EVERY offset; sizes and magnitudes concentrated on header-width "
                 "boundaries; decoded by the independent decoder"),
        "budget_s": {"quick": 70, "thorough": 900},
        "batches": [
            {"family": "sink", "mode": "mp", "cfgs": {"quick": ["A", "D", "H"], "thorough": ALL_CFGS},
             "runs": {"quick": 18000, "thorough": 240000}},
            {"family": "sink", "mode": "mpbig", "cfgs": {"quick": ["A", "E"], "thorough": ["A", "D", "E"]},
             "runs": {"quick": 16, "thorough": 160}},
        ],
        "probes": ["fault.capacity_positions", "fault.short_write_positions"],
        "components": SINK_COMPONENTS,
        "assumptions": ["conformance is judged by sim/refmsgpack.hpp"],
    },
    "C03": {
        "level": "exploration",
        "classes": ["C03"],
        "rule": XFER_RULE,
        "budget_s": {"quick": 80, "thorough": 900},
        "batches": [
            {"family": "xfer", "mode": "any", "cfgs": {"quick": ["A", "B", "C", "D", "H"], "thorough": ALL_CFGS},
             "runs": {"quick": 36000, "thorough": 600000}},
            {"family": "xfer", "mode": "valid", "cfgs": {"quick": ["A", "B", "K"], "thorough": ALL_CFGS},
             "runs": {"quick": 15000, "thorough": 240000}},
            {"family": "xfer", "mode": "corrupt", "cfgs": {"quick": ["A", "E"], "thorough": ALL_CFGS},
             "runs": {"quick": 1500, "thorough": 24000}},
        ],
        "probes": ["fault.eof_injected", "fault.byte_flipped", "fault.short_read_fired", "kind.variant", "kind.flash", "kind.astream"],
        "components": XFER_COMPONENTS,
        "assumptions": ["zero-terminated kinds see the bytes up to the first NUL and are compared with pointer+size given that prefix",
                        "MessagePack is delivered through bounded kinds only"],
    },
    "C09": {
        "level": "fault_enumeration",
        "classes": ["C09"],
        "rule": ("one plan = one well-formed MessagePack object from the independent encoder with seeded non-minimal widths; "
                 "EVERY proper prefix of it is delivered (exhaustive per object, objects sampled), or single-byte corruptions "
                 "(all 255 masks at one offset, 12 masks at three more)"),
        "budget_s": {"quick": 80, "thorough": 900},
        "batches": [
            {"family": "xfer", "mode": "mpprefix", "cfgs": {"quick": ["A", "B", "H"], "thorough": ALL_CFGS},
             "runs": {"quick": 9000, "thorough": 160000}},
            {"family": "xfer", "mode": "mpvalid", "cfgs": {"quick": ["A", "H", "J"], "thorough": ALL_CFGS},
             "runs": {"quick": 15000, "thorough": 240000}},
            {"family": "xfer", "mode": "mpcorrupt", "cfgs": {"quick": ["A", "D"], "thorough": ALL_CFGS},
             "runs": {"quick": 1800, "thorough": 32000}},
            {"family": "xfer", "mode": "hostile", "cfgs": {"quick": ["A", "B"], "thorough": ALL_CFGS},
             "runs": {"quick": 9000, "thorough": 80000}},
        ],
        "probes": ["fault.prefix_positions", "fault.byte_flipped", "probe.corrupt_still_wellformed"],
        "components": XFER_COMPONENTS,
        "assumptions": ["the value clause is a pure function of the bytes: sampled, not the technique's target"],
    },
    "C10": {
        "level": "fault_enumeration",
        "classes": ["C10"],
        "rule": ("one plan = one JSON text from the independent writer; EVERY proper prefix of it is delivered (exhaustive per "
                 "text), or one structural token is replaced by a wrong one, or a documented dialect extension is spliced in; "
                 "expected classes are known by construction, not from a second recogniser"),
        "budget_s": {"quick": 80, "thorough": 900},
        "batches": [
            {"family": "xfer", "mode": "jsonprefix", "cfgs": {"quick": ["A", "B", "C"], "thorough": ALL_CFGS},
             "runs": {"quick": 4800, "thorough": 80000}},
            {"family": "xfer", "mode": "jsonvalid", "cfgs": {"quick": ["A", "B"], "thorough": ALL_CFGS},
             "runs": {"quick": 15000, "thorough": 240000}},
            {"family": "xfer", "mode": "token", "cfgs": {"quick": ["A", "B", "L"], "thorough": ALL_CFGS + ["L", "M"]},
             "runs": {"quick": 18000, "thorough": 240000}},
            {"family": "xfer", "mode": "dialect", "cfgs": {"quick": ["A", "B", "E", "L", "M"], "thorough": ALL_CFGS + ["L", "M"]},
             "runs": {"quick": 18000, "thorough": 240000}},
        ],
        "probes": ["fault.prefix_positions", "code.InvalidInput", "code.IncompleteInput", "code.EmptyInput"],
        "components": XFER_COMPONENTS,
        "assumptions": ["no executable description of the whole accepted language is attempted (DESIGN §5 C10)"],
    },
    "C11": {
        "level": "exploration",
        "classes": ["C11"],
        "rule": ("one plan = one (input, filter) pair; the input is run with and without the filter through the same reader kind "
                 "on instrumented allocators; inputs are valid, truncated or corrupted; non-trivial: always"),
        "budget_s": {"quick": 80, "thorough": 900},
        "batches": [
            {"family": "xfer", "mode": "filter", "cfgs": {"quick": ["A", "B", "D", "H"], "thorough": ALL_CFGS},
             "runs": {"quick": 72000, "thorough": 1200000}},
        ],
        "probes": ["probe.projection_checked", "probe.filter_dropped_something", "probe.memory_compared", "probe.filter_true_identity"],
        "components": XFER_COMPONENTS,
        "assumptions": ["memory is compared as peak and resident bytes, where both runs consume the same bytes (DESIGN §5 C11)",
                        "a null entry next to a \"*\" entry is not generated (indistinguishable from no entry)"],
    },
    "C15": {
        "level": "exploration",
        "classes": ["C15"],
        "rule": ("one plan = one input of known depth (well-formed at depth L or L+1, or thousands of unclosed openers) with limit L, "
                 "with and without a discarding filter, through a stream kind; the stack low-water mark is read at the reader seam"),
        "budget_s": {"quick": 60, "thorough": 900},
        "batches": [
            {"family": "xfer", "mode": "deep", "cfgs": {"quick": ["A", "B"], "thorough": ALL_CFGS},
             "runs": {"quick": 18000, "thorough": 240000}},
        ],
        "probes": ["code.TooDeep", "stack.used.max"],
        "components": XFER_COMPONENTS,
        "assumptions": ["the per-level stack bound is calibrated per build on inputs of depth 2 and 12 (factor 2 margin)"],
    },
    "C16": {
        "level": "exploration",
        "classes": ["C16"],
        "rule": ("one plan = 2-6 documents written back to back (JSON with seeded separators, NDJSON included; MessagePack) into one "
                 "simulated stream with seeded chunking, read by successive calls; run twice with different bytes after the last document"),
        "budget_s": {"quick": 60, "thorough": 900},
        "batches": [
            {"family": "xfer", "mode": "stream", "cfgs": {"quick": ["A", "B", "C"], "thorough": ALL_CFGS},
             "runs": {"quick": 48000, "thorough": 800000}},
        ],
        "probes": ["stream.calls", "probe.stream_empty_after_last"],
        "components": XFER_COMPONENTS,
        "assumptions": ["after a JSON number the generator always writes whitespace, so the look-ahead byte never belongs to the next document"],
    },
})

CHECKS["C05"]["batches"].append(
    {"family": "xfer", "mode": "faultenum", "cfgs": {"quick": ["A", "B"], "thorough": ALL_CFGS},
     "runs": {"quick": 9000, "thorough": 160000}})
CHECKS["C05"]["components"] = XFER_COMPONENTS
CHECKS["C06"]["batches"] += [
    {"family": "xfer", "mode": "hostile", "cfgs": {"quick": ["A", "B", "E"], "thorough": ALL_CFGS},
     "runs": {"quick": 9000, "thorough": 120000}},
    {"family": "xfer", "mode": "any", "cfgs": {"quick": ["A", "E"], "thorough": ALL_CFGS},
     "runs": {"quick": 12000, "thorough": 160000}},
]
CHECKS["C06"]["components"] = XFER_COMPONENTS
CHECKS["C19"]["batches"].append(
    {"family": "xfer", "mode": "limits", "cfgs": {"quick": ["B", "C", "D", "F"], "thorough": ["B", "C", "D", "F", "G"]},
     "runs": {"quick": 360, "thorough": 2400}})

CONC_COMPONENTS = dict(COMPONENTS)
CONC_COMPONENTS["simulated"] = COMPONENTS["simulated"] + [
    "caller threads: real pthreads, parked; exactly one runs at a time, chosen by the seeded scheduler at basic blocks of "
    "library code (clang trace-pc-guard callbacks resolved with dladdr)"]
CHECKS["C20"] = {
    "level": "exploration",
    "classes": ["C20"],
    "rule": ("one plan = 2-4 tasks, each a hist history on its own documents (own SimAllocator or the shared default allocator), "
             "optionally all reading one shared document through JsonVariantConst (copy source, filter, comparison, "
             "serialization), plus a seeded schedule of 1-64 preemptions placed guard-first on library basic blocks; "
             "distinct = distinct plan texts (the schedule seed is part of the text)"),
    "budget_s": {"quick": 80, "thorough": 900},
    "batches": [
        {"family": "conc", "mode": "parked", "kind": "conc", "cfgs": {"quick": ["A", "B"], "thorough": ["A", "B", "H", "G"]},
         "runs": {"quick": 1400, "thorough": 60000}},
        # library state that is created on first use (function-local statics): each plan runs in a forked child in
        # which that state does not exist yet; the tasks race for its creation
        {"family": "conc", "mode": "cold", "kind": "conc", "cfgs": {"quick": ["A"], "thorough": ["A", "B"]},
         "runs": {"quick": 96, "thorough": 4000}, "chunks": {"quick": 4, "thorough": 16}},
    ],
    "probes": ["fault.preemptions_fired", "conc.switches", "op.shr", "conc.cold_first_use_checked"],
    "components": CONC_COMPONENTS,
    "assumptions": ["state written and read inside one basic block is below the scheduler's resolution",
                    "the free-running ThreadSanitizer stage is auxiliary (bin/check --selftest tsan), never the deciding step"],
}

CHECKS["C05"]["batches"] += [
    {"family": "hist", "mode": "faultrand", "cfgs": {"quick": ["A", "B", "G"], "thorough": ALL_CFGS},
     "runs": {"quick": 20000, "thorough": 400000}},
    {"family": "xfer", "mode": "anyfault", "cfgs": {"quick": ["A", "B"], "thorough": ALL_CFGS},
     "runs": {"quick": 8000, "thorough": 200000}},
]
CHECKS["C05"]["rule"] += ("; plus random multi-failure subsets: histories and arbitrary-byte deserializations in which every "
                          "failable allocator call fails with probability 1/2 .. 1/25 from a per-plan sub-seed")

# bounded-exhaustive short histories (24-operation alphabet): all sequences of length <= 3 (14 424) in the
# quick tier, all of length <= 4 (346 200) in the thorough tier, on tiny pools
CHECKS["C04"]["batches"].append(
    {"family": "hist", "mode": "enum", "cfgs": {"quick": ["B", "G"], "thorough": ["B", "G", "F", "A"]},
     "runs": {"quick": 14424, "thorough": 346200}})
CHECKS["C04"]["rule"] += ("; plus mode 'enum': run r is the r-th sequence (shortest first) over a fixed alphabet of 24 concrete "
                          "operations on one document, enumerated completely up to the stated length")
CHECKS["C06"]["batches"].append(
    {"family": "hist", "mode": "enum", "cfgs": {"quick": ["G"], "thorough": ["B", "G"]},
     "runs": {"quick": 14424, "thorough": 346200}})

# the string-length limit seen from the allocator's side (a too-long string must not strand its buffer)
CHECKS["C06"]["batches"].append(
    {"family": "xfer", "mode": "limits", "cfgs": {"quick": ["A", "B", "D", "F"], "thorough": ["A", "B", "C", "D", "F", "G", "I"]},
     "runs": {"quick": 60, "thorough": 600}})
# wrong tokens and over-long numeric literals are also a memory-safety matter
CHECKS["C03"]["batches"].append(
    {"family": "xfer", "mode": "token", "cfgs": {"quick": ["A", "B"], "thorough": ALL_CFGS},
     "runs": {"quick": 6000, "thorough": 100000}})

CHECKS["C09"]["batches"].append(
    {"family": "xfer", "mode": "mpbadkey", "cfgs": {"quick": ["A", "B"], "thorough": ALL_CFGS},
     "runs": {"quick": 300, "thorough": 6000}})
CHECKS["C09"]["rule"] += "; plus every one of the 256 header bytes in map-key position (only string headers may be accepted) and 0xC1 at value positions"

# the way to the slot limit with one allocation failing on it: every position of every pool allocation and table
# growth in turn (single failure and fail-from), on the builds whose limit is within reach
CHECKS["C05"]["batches"].append(
    {"family": "hist", "mode": "limitfault", "cfgs": {"quick": ["C", "K"], "thorough": ["B", "C", "F", "J", "K"]},
     "runs": {"quick": 24, "thorough": 1200}, "chunks": {"quick": 4, "thorough": 16}})

# a capacity limit met while a deserializer is building a string is a failure too: nothing may stay behind after clear()
CHECKS["C05"]["batches"].append(
    {"family": "xfer", "mode": "limits", "cfgs": {"quick": ["A", "B"], "thorough": ["A", "B", "C", "D", "F", "I"]},
     "runs": {"quick": 60, "thorough": 600}})

# "removing one user leaves the others intact" also when one string has more users than a narrow counter can count:
# fills of 256..65538 values holding the same copied string, then a removal (the `same` flavour of the limit mode)
CHECKS["C14"]["batches"].append(
    {"family": "hist", "mode": "limit", "cfgs": {"quick": ["A", "I"], "thorough": ["A", "B", "D", "I"]},
     "runs": {"quick": 40, "thorough": 1200}})

# long histories with repetition (150-600 operations, blocks of 2-8 operations run 5-60 times over): what only shows
# after accumulated state - leaks that eat the id space, counters, pool-table growth after reuse, free-list order
CHECKS["C04"]["batches"].append(
    {"family": "hist", "mode": "soak", "cfgs": {"quick": ["A", "B"], "thorough": ALL_CFGS},
     "runs": {"quick": 400, "thorough": 20000}})
CHECKS["C06"]["batches"].append(
    {"family": "hist", "mode": "soak", "cfgs": {"quick": ["G", "D"], "thorough": ALL_CFGS},
     "runs": {"quick": 400, "thorough": 20000}})
CHECKS["C19"]["batches"].append(
    {"family": "hist", "mode": "soak", "cfgs": {"quick": ["B", "J", "K"], "thorough": ["B", "C", "F", "J", "K", "I"]},
     "runs": {"quick": 300, "thorough": 12000}})
